CONSTANTS
  MaxLevel = 5
  Pred <- MaxDeg2
INIT Init
NEXT Next
INVARIANTS OnePerClass
CHECK_DEADLOCK FALSE
