CONSTANTS
  Iters = {1, 2, 3}
  Blobs = {1, 2}
  L = 2
INIT Init
NEXT DumpNext
VIEW View
CHECK_DEADLOCK FALSE
