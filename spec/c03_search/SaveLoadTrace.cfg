CONSTANTS
  Iters = {1, 2, 3, 4, 5, 6}
  Blobs <- BlobSet
  L = 0
INIT TInit
NEXT TStep
INVARIANT Report
CHECK_DEADLOCK FALSE
