CONSTANTS
  MaxLevel = 5
  Pred <- All
INIT Init
NEXT Next
INVARIANTS OnePerClass CountIsBurnside
CHECK_DEADLOCK FALSE
