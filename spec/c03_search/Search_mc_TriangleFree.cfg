CONSTANTS
  MaxLevel = 5
  Pred <- TriangleFree
INIT Init
NEXT Next
INVARIANTS OnePerClass
CHECK_DEADLOCK FALSE
