-------------------------------- MODULE Search -------------------------------
(***************************************************************************)
(* C03, design level.  Orderly generation by canonical deletion, as         *)
(* graph/search performs it, level by level:                                *)
(*   augment : a graph G on k vertices gets a new vertex k joined to a set  *)
(*             S of old vertices; S ranges over ONE representative of every *)
(*             orbit of Aut(G) on the subsets of size <= mindeg(G)+1;       *)
(*   accept  : H = G + k is kept iff, among the vertices that are extremal  *)
(*             for (degree minimal, then sum of neighbour degrees maximal,  *)
(*             then sum of their squares maximal), the one that comes first *)
(*             in a canonical labelling of H lies in the orbit of k.        *)
(* The canonical labelling and Aut are abstract here (brute force).         *)
(* Property OnePerClass: at every level the kept graphs are pairwise        *)
(* non-isomorphic and there are as many as isomorphism classes (counted by  *)
(* Burnside's lemma, so the expected number is derived, not quoted).        *)
(* HereditaryPruning: discarding the graphs that violate a hereditary       *)
(* predicate at every level (before or after the acceptance test) keeps     *)
(* exactly the classes that satisfy it.                                     *)
(***************************************************************************)
EXTENDS Graphs

CONSTANTS MaxLevel, Pred(_)      \* Pred: a hereditary predicate on graphs (TRUE for the full search)
VARIABLES level, graphs
vars == <<level, graphs>>

AutOf(G)      == { p \in PermSeqs(G.n) : Relabel(G, p).E = G.E }
Img(p, S)     == { i - 1 : i \in { j \in 1..Len(p) : p[j] \in S } }       \* image of S under the relabelling p (new name of old vertex p[j] is j-1)
(* p as a map old -> new : old vertex p[j] becomes j-1; its inverse action on sets *)
Act(p, S)     == { p[x + 1] : x \in S }
SubsetOrbit(A, S) == { Act(p, S) : p \in A }
OrbitReps(G, maxSize) ==
    LET A == AutOf(G)
        subs == { S \in SUBSET Verts(G.n) : Cardinality(S) <= maxSize }
        orbits == { SubsetOrbit(A, S) : S \in subs }
    IN { CHOOSE S \in O : TRUE : O \in orbits }
Augment(G, S) == [n |-> G.n + 1, E |-> G.E \cup { {v, G.n} : v \in S }]

SumDeg(H, v)  == FoldSet(LAMBDA x, a : a + Deg(H, x), 0, Nbrs(H, v))
SumSq(H, v)   == FoldSet(LAMBDA x, a : a + Deg(H, x) * Deg(H, x), 0, Nbrs(H, v))
(* v is at least as good a candidate for deletion as w *)
Better(H, v, w) == \/ Deg(H, v) < Deg(H, w)
                   \/ Deg(H, v) = Deg(H, w) /\ SumDeg(H, v) > SumDeg(H, w)
                   \/ Deg(H, v) = Deg(H, w) /\ SumDeg(H, v) = SumDeg(H, w) /\ SumSq(H, v) > SumSq(H, w)
Extremal(H)   == { v \in Verts(H.n) : \A w \in Verts(H.n) : ~Better(H, w, v) }
(* a canonical labelling: a relabelling attaining the brute-force canonical code *)
CanonPerm(H)  == CHOOSE p \in PermSeqs(H.n) : CodeOf(Relabel(H, p)) = BFCanonCode(H)
PosIn(p, v)   == CHOOSE i \in 1..Len(p) : p[i] = v
IsCanonical(H) ==
    LET last == H.n - 1  ext == Extremal(H) IN
    /\ last \in ext
    /\ LET p == CanonPerm(H)
           firstV == CHOOSE v \in ext : \A w \in ext : PosIn(p, v) <= PosIn(p, w)
       IN last \in OrbitOf(firstV, AutOf(H))

Children(G)   == { Augment(G, S) : S \in OrbitReps(G, MinDeg(G) + 1) }
Init == level = 1 /\ graphs = { g \in { Empty(1) } : Pred(g) }
Next == /\ level < MaxLevel /\ level' = level + 1
        /\ graphs' = { H \in UNION { Children(G) : G \in graphs } : Pred(H) /\ IsCanonical(H) }
Spec == Init /\ [][Next]_vars

(* ---- Burnside: the number of graphs on n vertices up to isomorphism ---- *)
RECURSIVE Gcd(_, _)
Gcd(a, b) == IF b = 0 THEN a ELSE Gcd(b, a % b)
RECURSIVE Pow2(_)
Pow2(k) == IF k = 0 THEN 1 ELSE 2 * Pow2(k - 1)
(* cycles of the action on pairs of a permutation (as a sequence) : count via orbits of <p> on pairs *)
PairCycles(p) == LET n == Len(p)
                     nxt(e) == { p[x + 1] : x \in e }
                     RECURSIVE Orb(_, _)
                     Orb(e, S) == IF nxt(e) \in S THEN S ELSE Orb(nxt(e), S \cup {nxt(e)})
                 IN Cardinality({ Orb(e, {e}) : e \in AllPairs(n) })
NumClasses(n) == FoldSet(LAMBDA p, a : a + Pow2(PairCycles(p)), 0, PermSeqs(n)) \div Cardinality(PermSeqs(n))

OnePerClass == /\ Cardinality({ BFCanonCode(G) : G \in graphs }) = Cardinality(graphs)
               /\ Cardinality(graphs) = Cardinality({ BFCanonCode(G) : G \in { H \in AllGraphs(level) : Pred(H) } })
CountIsBurnside == Pred(Empty(0)) /\ (\A G \in AllGraphs(3) : Pred(G)) => Cardinality(graphs) = NumClasses(level)
=============================================================================
