------------------------------ MODULE SearchTrace ----------------------------
(***************************************************************************)
(* C03, code -> spec.  One segment = one vertex count n.  Each Run event    *)
(* carries everything the real iterators All(n, a, m) / WithPruning for     *)
(* a = 0..m-1 yielded (edge set, M(), Degrees()).  The first Run of a       *)
(* segment is the plain search (m = 1, no predicate); the monitor keeps its *)
(* graphs as the representatives of the classes and judges every later Run  *)
(* (other split moduli, hereditary predicates as preprune or prune)         *)
(* against them.  Isomorphism is decided by a brute-force canonical code.   *)
(***************************************************************************)
EXTENDS Graphs, TraceLib

VARIABLES l, bad, st, dead, reps      \* reps: the graphs of the baseline run (one per class)
Ev == Trace[l]
SeqRange(s) == { s[i] : i \in 1..Len(s) }
GofY(n, y) == GraphOfRankSet(n, SeqRange(y.e))

(* ---- Burnside (as in Search.tla) ---- *)
RECURSIVE Pow2(_)
Pow2(k) == IF k = 0 THEN 1 ELSE 2 * Pow2(k - 1)
PairCycles(p) == LET n == Len(p)
                     nxt(e) == { p[x + 1] : x \in e }
                     RECURSIVE Orb(_, _)
                     Orb(e, S) == IF nxt(e) \in S THEN S ELSE Orb(nxt(e), S \cup {nxt(e)})
                 IN Cardinality({ Orb(e, {e}) : e \in AllPairs(n) })
NumClasses(n) == FoldSet(LAMBDA p, a : a + Pow2(PairCycles(p)), 0, PermSeqs(n)) \div Cardinality(PermSeqs(n))

(* ---- hereditary predicates (twins of the Go predicates in the harness) ---- *)
TriangleFree(G) == ~\E a, b, c \in Verts(G.n) : Adj(G, a, b) /\ Adj(G, b, c) /\ Adj(G, a, c)
MaxDeg2(G)      == \A v \in Verts(G.n) : Deg(G, v) <= 2
MaxDeg1(G)      == \A v \in Verts(G.n) : Deg(G, v) <= 1
K4Free(G)       == ~\E S \in SUBSET Verts(G.n) : Cardinality(S) = 4 /\ \A a, b \in S : a = b \/ Adj(G, a, b)
ClawFree(G)     == ~\E c \in Verts(G.n) : \E S \in SUBSET Nbrs(G, c) : Cardinality(S) = 3 /\ \A a, b \in S : ~Adj(G, a, b)
Bipartite(G)    == \E f \in [Verts(G.n) -> {0, 1}] : \A e \in G.E : \E a, b \in e : f[a] # f[b]
Forest(G)       == \A S \in SUBSET Verts(G.n) : S = {} \/ \E v \in S : Cardinality(Nbrs(G, v) \cap S) <= 1
Alpha2(G)       == ~\E S \in SUBSET Verts(G.n) : Cardinality(S) = 3 /\ \A a, b \in S : ~Adj(G, a, b)
CMulti(G)       == ~\E a, b, c \in Verts(G.n) : a # b /\ a # c /\ Adj(G, b, c) /\ ~Adj(G, a, b) /\ ~Adj(G, a, c)
Cograph(G)      == ~\E a, b, c, d \in Verts(G.n) : Cardinality({a, b, c, d}) = 4 /\ Adj(G, a, b) /\ Adj(G, b, c) /\ Adj(G, c, d)
                                                      /\ ~Adj(G, a, c) /\ ~Adj(G, a, d) /\ ~Adj(G, b, d)
Holds(pred, G) == CASE pred = "alpha2" -> Alpha2(G) [] pred = "cmulti" -> CMulti(G) [] pred = "cograph" -> Cograph(G) [] pred = "trianglefree" -> TriangleFree(G) [] pred = "maxdeg2" -> MaxDeg2(G) [] pred = "maxdeg1" -> MaxDeg1(G) [] pred = "nothing" -> FALSE [] pred = "order0" -> G.n <= 0 [] pred = "order1" -> G.n <= 1
                    [] pred = "order2" -> G.n <= 2 [] pred = "maxedges3" -> NumEdges(G) <= 3 [] pred = "k4free" -> K4Free(G)
                    [] pred = "clawfree" -> ClawFree(G) [] pred = "bipartite" -> Bipartite(G) [] pred = "forest" -> Forest(G) [] OTHER -> TRUE

(* closed forms for two predicates, usable at sizes where the classes cannot be enumerated by TLC:                                 *)
(*  max degree <= 1: a matching is determined by its number of edges;                                                            *)
(*  max degree <= 2: a multiset of paths (any number of vertices >= 1) and cycles (>= 3 vertices) with n vertices in total.       *)
CompSizes(n) == [i \in 1..(2 * n - 2) |-> IF i <= n THEN i ELSE i - n + 2]        \* P1..Pn, C3..Cn
RECURSIVE Ways(_, _, _)
Ways(sz, i, r) == IF r = 0 THEN 1 ELSE IF i > Len(sz) THEN 0
                  ELSE FoldSet(LAMBDA c, a : a + Ways(sz, i + 1, r - c * sz[i]), 0, 0..(r \div sz[i]))
(*  at most 3 edges, n >= 6: the edgeless graph, K2, P3, 2K2, K3, P4, K1,3, P3+K2, 3K2 (each padded with isolated vertices)                   *)
(*  complete multipartite graphs on n vertices <-> partitions of n into the sizes of the parts *)
PartNum == <<1, 1, 2, 3, 5, 7, 11, 15, 22, 30, 42, 56, 77>>
ClassCount(pred, n) == IF pred = "cmulti" THEN PartNum[n + 1] ELSE IF pred = "maxdeg1" THEN n \div 2 + 1 ELSE IF pred = "maxedges3" THEN 9 ELSE IF n < 2 THEN 1 ELSE Ways(CompSizes(n), 1, n)

AllYields(e) == UNION { { e.yields[a][k] : k \in 1..Len(e.yields[a]) } : a \in 1..Len(e.yields) }
Total(e)     == FoldLeft(LAMBDA s, sh : s + Len(sh), 0, e.yields)
WF(n, y)     == LET G == GofY(n, y) IN y.mm = NumEdges(G) /\ Len(y.deg) = n /\ \A v \in Verts(n) : y.deg[v + 1] = Deg(G, v)

JudgeRun(e) ==
    LET n == e.n
        ys == AllYields(e)
        codes == { CanonCode(GofY(n, y)) : y \in ys } IN
    IF e.res # "ok" THEN e.res
    ELSE IF \E y \in ys : y.n # n THEN "a yielded graph does not have n vertices"
    ELSE IF \E y \in ys : ~WF(n, y) THEN "a yielded graph is not well formed (M or Degrees do not match its edges)"
    ELSE IF Cardinality(codes) # Total(e) THEN "two yielded graphs are isomorphic (within a shard or across shards)"
    ELSE IF e.pred = "none" THEN
         (IF reps = {} THEN (IF e.count_only \/ Total(e) = NumClasses(n) THEN "" ELSE "the search does not yield one graph per isomorphism class (count differs from Burnside)")
          ELSE IF codes # { CanonCode(G) : G \in reps } THEN "the shards together do not yield exactly the isomorphism classes" ELSE "")
    ELSE IF \E y \in ys : ~Holds(e.pred, GofY(n, y)) THEN "a yielded graph violates the pruning predicate"
    ELSE IF codes # { CanonCode(G) : G \in { H \in reps : Holds(e.pred, H) } } THEN "pruned search does not yield exactly the classes that satisfy the predicate"
    ELSE ""

(* large pruned searches: relational judgement (no canonical code for every graph) *)
JudgeBig(e) ==
    LET n == e.n  ys == AllYields(e) IN
    IF e.res # "ok" THEN e.res
    ELSE IF \E y \in ys : y.n # n THEN "a yielded graph does not have n vertices"
    ELSE IF \E y \in ys : ~WF(n, y) THEN "a yielded graph is not well formed (M or Degrees do not match its edges)"
    ELSE IF \E y \in ys : ~Holds(e.pred, GofY(n, y)) THEN "a yielded graph violates the pruning predicate"
    ELSE IF \E i \in 1..Len(e.dups) : LET d == e.dups[i] IN IsPermSeq(d.p, n) /\ d.a.e # d.b.e /\ Relabel(GofY(n, d.a), d.p) = GofY(n, d.b)
         THEN "two yielded graphs are isomorphic (witness permutation checked)"
    ELSE IF e.counts[1] # e.counts[2] \/ e.counts[1] # e.counts[3] THEN "preprune, prune and sharded searches yield different numbers of graphs"
    ELSE IF (e.pred \in {"maxdeg1", "maxdeg2"} \/ (e.pred = "cmulti" /\ n <= 12) \/ (e.pred = "maxedges3" /\ n >= 6)) /\ e.counts[1] # ClassCount(e.pred, n) THEN "the pruned search does not yield as many graphs as there are classes satisfying the predicate (closed form)"
    ELSE ""

(* the number of graphs on n vertices up to isomorphism (OEIS A000088; n <= 7 is also what NumClasses computes by Burnside's lemma), *)
(* and their total number of edges: every class has a complement, so the edges sum to classes * n(n-1)/4                            *)
KnownClasses == <<1, 1, 2, 4, 11, 34, 156, 1044, 12346, 274668, 12005168, 1018997864>>
JudgeCount(e) ==
    LET tot == FoldLeft(LAMBDA a, b : a + b, 0, e.counts) IN
    IF e.res # "ok" THEN e.res
    ELSE IF e.n + 1 > Len(KnownClasses) THEN "HARNESS: no reference count for this n"
    ELSE IF tot # KnownClasses[e.n + 1] THEN "the shards of the search do not yield as many graphs as there are isomorphism classes"
    ELSE IF e.n <= 10 /\ 2 * FoldLeft(LAMBDA a, b : a + b, 0, e.edges) # tot * ((e.n * (e.n - 1)) \div 2)
         THEN "the yielded graphs do not carry half of all possible edges on average (the classes are closed under complement)"
    ELSE ""

TInit == l = 1 /\ bad = <<>> /\ dead = FALSE /\ reps = {}
         /\ st = [segs |-> 0, runs |-> 0, graphs |-> 0, pruned |-> 0, sharded |-> 0, nontrivial |-> 0]
TStep ==
    /\ l <= NEvents /\ l' = l + 1
    /\ IF Ev.ev = "Reset" THEN bad' = bad /\ dead' = FALSE /\ reps' = {} /\ st' = [st EXCEPT !.segs = @ + 1]
       ELSE IF dead THEN UNCHANGED <<bad, dead, reps, st>>
       ELSE IF Ev.ev = "Count"
       THEN LET why == JudgeCount(Ev) IN
            /\ bad' = IF why = "" THEN bad ELSE Note(bad, [seg |-> Ev.seg, l |-> l, why |-> why \o " [n=" \o ToString(Ev.n) \o ",m=" \o ToString(Ev.m) \o ",count]"])
            /\ dead' = (why # "") /\ UNCHANGED reps
            /\ st' = [st EXCEPT !.runs = @ + 1, !.sharded = @ + 1]
       ELSE LET why == IF Ev.ev = "RunBig" THEN JudgeBig(Ev) ELSE JudgeRun(Ev) IN
            /\ bad' = IF why = "" THEN bad ELSE Note(bad, [seg |-> Ev.seg, l |-> l, why |-> why \o " [n=" \o ToString(Ev.n) \o ",m=" \o ToString(Ev.m) \o "," \o Ev.pred \o "," \o Ev.place \o "]"])
            /\ dead' = (why # "")
            /\ reps' = IF reps = {} /\ Ev.pred = "none" /\ why = "" THEN { GofY(Ev.n, y) : y \in AllYields(Ev) } ELSE reps
            /\ st' = [st EXCEPT !.runs = @ + 1, !.graphs = @ + Total(Ev), !.pruned = @ + (IF Ev.pred # "none" THEN 1 ELSE 0),
                                !.sharded = @ + (IF Ev.m > 1 THEN 1 ELSE 0), !.nontrivial = @ + (IF Total(Ev) >= 2 THEN 1 ELSE 0)]
Report == ReportLine(l, [bad |-> bad, st |-> st, events |-> NEvents])
=============================================================================
