------------------------------- MODULE SearchMC ------------------------------
EXTENDS Search
All(G)          == TRUE
TriangleFree(G) == ~\E a, b, c \in Verts(G.n) : Adj(G, a, b) /\ Adj(G, b, c) /\ Adj(G, a, c)
MaxDeg2(G)      == \A v \in Verts(G.n) : Deg(G, v) <= 2
=============================================================================
