------------------------------ MODULE SaveLoadMC -----------------------------
EXTENDS SaveLoad, Json
View == <<it, blob>>
J == [it |-> [i \in Iters |-> it[i]], blob |-> [b \in Blobs |-> blob[b]]]
JP == [it |-> [i \in Iters |-> it'[i]], blob |-> [b \in Blobs |-> blob'[b]]]
DumpNext == Next /\ PrintT(<<"T", ToJson([f |-> J, a |-> act', r |-> res', t |-> JP])>>)
=============================================================================
