CONSTANTS
  Iters = {1, 2, 3}
  Blobs = {1, 2}
  L = 1
INIT Init
NEXT Next
VIEW View
INVARIANT TypeOK
PROPERTIES SaveIsReadOnly LoadedIndependent ExhaustedForEver ResumeExact
CHECK_DEADLOCK FALSE
