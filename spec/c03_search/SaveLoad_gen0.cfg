CONSTANTS
  Iters = {1, 2, 3}
  Blobs = {1, 2}
  L = 0
INIT Init
NEXT DumpNext
VIEW View
CHECK_DEADLOCK FALSE
