----------------------------- MODULE SaveLoadTrace ---------------------------
(***************************************************************************)
(* C04, code -> spec.  One segment = one session over real search           *)
(* iterators of one configuration.  The first event (Ref) carries the       *)
(* output of an uninterrupted iterator; then Next / Save / Load / Drain     *)
(* events.  The monitor runs SaveLoad's Eff / Res with Out := the logged    *)
(* reference and checks every returned value and every drained remainder.   *)
(* Iterator ids are 1..6, blob ids 1..4.                                    *)
(***************************************************************************)
EXTENDS SaveLoad, TraceLib

BlobSet == 1..2500
VARIABLES l, bad, st, dead, refl      \* refl: the line of this segment's Ref event (0 before); the reference sequence stays in the trace, not in the state
out == IF refl = 0 THEN <<>> ELSE Trace[refl].out
Ev == Trace[l]
S == [it |-> it, blob |-> blob]

JudgeNext(e) ==
    LET a == Act("Next", e.i, 0)  want == Res(S, a, Len(out)) IN
    IF ~it[e.i].live THEN "HARNESS: Next on an iterator that does not exist"
    ELSE IF e.res # "ok" THEN e.res
    ELSE IF e.ok # want.ok THEN (IF want.ok THEN "Next answered false although graphs remain" ELSE "Next answered true after the last graph")
    ELSE IF want.ok /\ e.val # out[want.idx] THEN "Next delivered a different graph than the uninterrupted iterator at this position"
    ELSE ""
(* Drain = Next until false: the whole remainder in one event *)
JudgeDrain(e) ==
    IF ~it[e.i].live THEN "HARNESS: Drain on an iterator that does not exist"
    ELSE IF e.res # "ok" THEN e.res
    ELSE IF e.vals # SubSeq(out, it[e.i].pos + 1, Len(out)) THEN "the remaining output differs from what the uninterrupted iterator still produces"
    ELSE ""

(* Adv = t calls of Next of which only the number of successes and the last value are logged; Take = t calls, all values logged *)
JudgeAdv(e) ==
    LET p == it[e.i].pos  want == IF p + e.t <= Len(out) THEN e.t ELSE Len(out) - p IN
    IF ~it[e.i].live THEN "HARNESS: Adv on an iterator that does not exist"
    ELSE IF e.res # "ok" THEN e.res
    ELSE IF e.oks # want THEN "advancing delivered a different number of graphs than the uninterrupted iterator"
    ELSE IF want > 0 /\ e.last # out[p + want] THEN "after advancing, the current graph differs from the uninterrupted iterator's at this position"
    ELSE IF e.ev = "Take" /\ e.vals # SubSeq(out, p + 1, p + want) THEN "the graphs delivered after loading differ from the uninterrupted iterator's"
    ELSE ""
AdvEff(e) == LET p == it[e.i].pos  np == IF p + e.t <= Len(out) THEN p + e.t ELSE Len(out) IN
             [it EXCEPT ![e.i] = [live |-> TRUE, pos |-> np, exh |-> (p + e.t > Len(out))]]

TInit == l = 1 /\ bad = <<>> /\ dead = FALSE /\ refl = 0
         /\ it = [i \in Iters |-> Dead] /\ blob = [b \in Blobs |-> NoBlob] /\ act = Act("Init", 0, 0) /\ res = [ok |-> TRUE, idx |-> 0]
         /\ st = [segs |-> 0, nexts |-> 0, saves |-> 0, loads |-> 0, drains |-> 0, inner |-> 0, graphs |-> 0]
Flag(why) == /\ bad' = IF why = "" THEN bad ELSE Note(bad, [seg |-> Ev.seg, l |-> l, why |-> why \o " [" \o Ev.ev \o "]"])
             /\ dead' = (why # "")
Apply(a) == LET s2 == Eff(S, a, Len(out)) IN it' = s2.it /\ blob' = s2.blob
TStep ==
    /\ l <= NEvents /\ l' = l + 1 /\ UNCHANGED <<act, res>>
    /\ IF Ev.ev = "Reset"
       THEN /\ bad' = bad /\ dead' = FALSE /\ refl' = 0 /\ it' = [i \in Iters |-> Dead] /\ blob' = [b \in Blobs |-> NoBlob]
            /\ st' = [st EXCEPT !.segs = @ + 1]
       ELSE IF dead THEN UNCHANGED <<bad, dead, refl, it, blob, st>>
       ELSE IF Ev.ev = "Ref"
       THEN /\ refl' = l /\ Flag(IF Ev.res = "ok" THEN "" ELSE Ev.res) /\ UNCHANGED blob
            /\ it' = [i \in Iters |-> IF i = 1 THEN Fresh ELSE Dead]        \* iterator 1 is a fresh iterator of the same configuration
            /\ st' = [st EXCEPT !.graphs = @ + Len(Ev.out)]
       ELSE IF Ev.ev \in {"Adv", "Take"}
       THEN /\ Flag(JudgeAdv(Ev)) /\ UNCHANGED <<refl, blob>>
            /\ it' = IF it[Ev.i].live THEN AdvEff(Ev) ELSE it
            /\ st' = [st EXCEPT !.nexts = @ + Ev.t]
       ELSE IF Ev.ev = "Next"
       THEN /\ Flag(JudgeNext(Ev)) /\ UNCHANGED refl
            /\ (IF it[Ev.i].live THEN Apply(Act("Next", Ev.i, 0)) ELSE UNCHANGED <<it, blob>>)
            /\ st' = [st EXCEPT !.nexts = @ + 1]
       ELSE IF Ev.ev = "Save"
       THEN /\ Flag(IF ~it[Ev.i].live THEN "HARNESS: Save on an iterator that does not exist" ELSE IF Ev.res # "ok" THEN Ev.res ELSE "") /\ UNCHANGED refl
            /\ (IF it[Ev.i].live THEN Apply(Act("Save", Ev.i, Ev.b)) ELSE UNCHANGED <<it, blob>>)
            /\ st' = [st EXCEPT !.saves = @ + 1, !.inner = @ + (IF it[Ev.i].live /\ it[Ev.i].pos > 0 /\ it[Ev.i].pos < Len(out) THEN 1 ELSE 0)]
       ELSE IF Ev.ev = "Load"
       THEN /\ Flag(IF ~blob[Ev.b].full THEN "HARNESS: Load of an empty blob" ELSE IF Ev.res # "ok" THEN Ev.res ELSE "") /\ UNCHANGED refl
            /\ (IF blob[Ev.b].full THEN Apply(Act("Load", Ev.i, Ev.b)) ELSE UNCHANGED <<it, blob>>)
            /\ st' = [st EXCEPT !.loads = @ + 1]
       ELSE /\ Flag(JudgeDrain(Ev)) /\ UNCHANGED <<refl, blob>>
            /\ it' = IF it[Ev.i].live THEN [it EXCEPT ![Ev.i] = [live |-> TRUE, pos |-> Len(out), exh |-> TRUE]] ELSE it
            /\ st' = [st EXCEPT !.drains = @ + 1]
Report == ReportLine(l, [bad |-> bad, st |-> st, events |-> NEvents])
=============================================================================
