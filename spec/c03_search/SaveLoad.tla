------------------------------- MODULE SaveLoad ------------------------------
(***************************************************************************)
(* C04.  Sessions over search iterators and saved states.  Out is the       *)
(* sequence an uninterrupted iterator of some configuration produces (its   *)
(* values are opaque).  An iterator is its position in Out (and whether it  *)
(* has already answered false); a blob is a copy of such a state.           *)
(*   Next(i)    : delivers Out[pos+1] and advances, or answers false for    *)
(*                ever once pos = Len(Out);                                 *)
(*   Save(i, b) : copies the state of i into blob b - and changes nothing   *)
(*                else;                                                     *)
(*   Load(b, j) : iterator j becomes a new iterator in the saved state,     *)
(*                independent of every other iterator.                      *)
(* Eff / Res are operators of the action record so that the design model,   *)
(* the behaviour generator and the trace acceptor share one definition.     *)
(***************************************************************************)
EXTENDS Integers, Sequences, FiniteSets, TLC

CONSTANTS Iters, Blobs, L          \* L = Len(Out) in the design model
VARIABLES it,      \* it[i] = [live, pos, exh]
          blob,    \* blob[b] = [full, pos, exh]
          act, res
vars == <<it, blob, act, res>>

Dead  == [live |-> FALSE, pos |-> 0, exh |-> FALSE]
Fresh == [live |-> TRUE, pos |-> 0, exh |-> FALSE]
NoBlob == [full |-> FALSE, pos |-> 0, exh |-> FALSE]
Act(op, i, b) == [op |-> op, i |-> i, b |-> b]

Enabled(s, a) == CASE a.op = "Next" -> s.it[a.i].live
                   [] a.op = "Save" -> s.it[a.i].live
                   [] a.op = "Load" -> s.blob[a.b].full
(* len = Len(Out) *)
Eff(s, a, len) ==
    CASE a.op = "Next" -> [s EXCEPT !.it[a.i] = IF @.pos < len THEN [@ EXCEPT !.pos = @ + 1] ELSE [@ EXCEPT !.exh = TRUE]]
      [] a.op = "Save" -> [s EXCEPT !.blob[a.b] = [full |-> TRUE, pos |-> s.it[a.i].pos, exh |-> s.it[a.i].exh]]
      [] a.op = "Load" -> [s EXCEPT !.it[a.i] = [live |-> TRUE, pos |-> s.blob[a.b].pos, exh |-> s.blob[a.b].exh]]
(* Next returns [ok, idx]: ok and the index in Out of the delivered value *)
Res(s, a, len) == IF a.op = "Next" THEN (IF s.it[a.i].pos < len THEN [ok |-> TRUE, idx |-> s.it[a.i].pos + 1] ELSE [ok |-> FALSE, idx |-> 0])
                  ELSE [ok |-> TRUE, idx |-> 0]

St == [it |-> it, blob |-> blob]
Init == it = [i \in Iters |-> IF i = 1 THEN Fresh ELSE Dead] /\ blob = [b \in Blobs |-> NoBlob]
        /\ act = Act("Init", 0, 0) /\ res = [ok |-> TRUE, idx |-> 0]
Actions == { Act("Next", i, 0) : i \in Iters } \cup { Act("Save", i, b) : i \in Iters, b \in Blobs } \cup { Act("Load", i, b) : i \in Iters, b \in Blobs }
Next == \E a \in Actions : Enabled(St, a) /\ LET s2 == Eff(St, a, L) IN it' = s2.it /\ blob' = s2.blob /\ act' = a /\ res' = Res(St, a, L)
Spec == Init /\ [][Next]_vars

(* ---- properties ---- *)
TypeOK == \A i \in Iters : it[i].pos \in 0..L /\ (it[i].exh => it[i].pos = L)
SaveIsReadOnly    == [][act'.op = "Save" => it' = it]_vars
LoadedIndependent == [][\A i \in Iters : it'[i] # it[i] => act'.i = i /\ act'.op \in {"Next", "Load"}]_vars
ExhaustedForEver  == [][\A i \in Iters : (it[i].exh /\ ~(act'.op = "Load" /\ act'.i = i)) => it'[i] = it[i]]_vars
(* a loaded iterator continues exactly where the saved one stood *)
ResumeExact == [][act'.op = "Load" => it'[act'.i].pos = blob[act'.b].pos /\ it'[act'.i].exh = blob[act'.b].exh]_vars
=============================================================================
