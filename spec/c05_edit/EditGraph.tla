----------------------------- MODULE EditGraph ------------------------------
(***************************************************************************)
(* C05 (and the live-view clause of C06).  The EditableGraph API as a state *)
(* machine over a table of handles.  Every handle holds an abstract simple  *)
(* graph value (lib/Graphs.tla) or nothing.  Each public mutator / copier   *)
(* is one action; its argument shapes are the real ones (neighbour lists    *)
(* and vertex lists are SEQUENCES, in any order).                           *)
(*                                                                          *)
(* The property: after every action the observers of EVERY live handle of   *)
(* the implementation agree with the value this model holds for it.  That   *)
(* Copy / InducedSubgraph results are independent values is expressed by    *)
(* the model itself: an action changes exactly one handle.                  *)
(***************************************************************************)
EXTENDS Graphs

CONSTANTS Handles,     \* e.g. 1..2
          MaxN         \* largest vertex count explored by the design model

VARIABLES gs,          \* gs[h] = the graph held by handle h, or NoG
          act          \* label of the last action (argument record) -- output only

vars == <<gs, act>>

NoG      == [n |-> -1, E |-> {}]
Live(h)  == gs[h].n >= 0
SeqRange(s) == { s[i] : i \in 1..Len(s) }
(* all injective sequences over S of length <= k *)
InjSeqs(S, k) == UNION { { s \in [1..m -> S] : \A a, b \in 1..m : a # b => s[a] # s[b] } : m \in 0..k }

TypeOK == \A h \in Handles : gs[h] = NoG \/ (IsGraph(gs[h]) /\ gs[h].n <= MaxN)

Init == gs = [h \in Handles |-> NoG] /\ act = [op |-> "Init"]

Create(h, G) ==
    /\ ~Live(h)
    /\ gs' = [gs EXCEPT ![h] = G]
    /\ act' = [op |-> "Create", h |-> h, n |-> G.n, e |-> SortedSeq(CodeOf(G))]

DoAddVertex(h, nb) ==
    /\ Live(h) /\ gs[h].n < MaxN
    /\ gs' = [gs EXCEPT ![h] = AddVertex(@, SeqRange(nb))]
    /\ act' = [op |-> "AddVertex", h |-> h, nb |-> nb]

DoRemoveVertex(h, v) ==
    /\ Live(h) /\ v \in Verts(gs[h].n)
    /\ gs' = [gs EXCEPT ![h] = RemoveVertex(@, v)]
    /\ act' = [op |-> "RemoveVertex", h |-> h, v |-> v]

DoAddEdge(h, i, j) ==
    /\ Live(h) /\ i \in Verts(gs[h].n) /\ j \in Verts(gs[h].n)
    /\ gs' = [gs EXCEPT ![h] = AddEdge(@, i, j)]
    /\ act' = [op |-> "AddEdge", h |-> h, i |-> i, j |-> j]

DoRemoveEdge(h, i, j) ==
    /\ Live(h) /\ i \in Verts(gs[h].n) /\ j \in Verts(gs[h].n)
    /\ gs' = [gs EXCEPT ![h] = RemoveEdge(@, i, j)]
    /\ act' = [op |-> "RemoveEdge", h |-> h, i |-> i, j |-> j]

DoCopy(h, h2) ==
    /\ Live(h) /\ h2 # h
    /\ gs' = [gs EXCEPT ![h2] = gs[h]]
    /\ act' = [op |-> "Copy", h |-> h, h2 |-> h2]

DoInduced(h, h2, V) ==
    /\ Live(h) /\ h2 # h
    /\ gs' = [gs EXCEPT ![h2] = Induced(gs[h], V)]
    /\ act' = [op |-> "Induced", h |-> h, h2 |-> h2, V |-> V]

Next ==
    \/ \E h \in Handles, k \in 0..MaxN : \E G \in AllGraphs(k) : Create(h, G)
    \/ \E h \in Handles : Live(h) /\ \E nb \in InjSeqs(Verts(gs[h].n), gs[h].n) : DoAddVertex(h, nb)
    \/ \E h \in Handles, v \in 0..(MaxN-1) : DoRemoveVertex(h, v)
    \/ \E h \in Handles, i, j \in 0..(MaxN-1) : DoAddEdge(h, i, j)
    \/ \E h \in Handles, i, j \in 0..(MaxN-1) : DoRemoveEdge(h, i, j)
    \/ \E h, h2 \in Handles : DoCopy(h, h2)
    \/ \E h, h2 \in Handles : Live(h) /\ \E V \in InjSeqs(Verts(gs[h].n), gs[h].n) : DoInduced(h, h2, V)

Spec == Init /\ [][Next]_vars

(* ---- properties of the specified behaviour (checked on the design model) ---- *)
Handshake == \A h \in Handles : Live(h) =>
                 LET G == gs[h] IN
                 /\ FoldSet(LAMBDA v, s : s + Deg(G, v), 0, Verts(G.n)) = 2 * NumEdges(G)
                 /\ \A v \in Verts(G.n) : v \notin Nbrs(G, v)
(* an action touches exactly the handle it names *)
OnlyTarget == [][ \A h \in Handles : gs'[h] # gs[h] =>
                     (act'.h = h /\ act'.op \notin {"Copy", "Induced"}) \/
                     (act'.op \in {"Copy", "Induced", "Create"} /\ (IF act'.op = "Create" THEN act'.h ELSE act'.h2) = h) ]_vars
(* removing the vertex just added gives the graph back; InducedSubgraph by the identity is Copy *)
AddThenRemove == \A h \in Handles : Live(h) =>
                     \A nb \in SUBSET Verts(gs[h].n) : RemoveVertex(AddVertex(gs[h], nb), gs[h].n) = gs[h]
InducedIdentity == \A h \in Handles : Live(h) =>
                     Induced(gs[h], [i \in 1..gs[h].n |-> i - 1]) = gs[h]
=============================================================================
