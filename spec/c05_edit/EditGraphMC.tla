---------------------------- MODULE EditGraphMC -----------------------------
(* Design-model and behaviour-generator instance of EditGraph (C05).        *)
EXTENDS EditGraph, Json
View == gs
Proj(g) == [h \in Handles |-> IF g[h] = NoG THEN [n |-> -1, e |-> <<>>]
                              ELSE [n |-> g[h].n, e |-> SortedSeq(CodeOf(g[h]))]]
(* every transition of the state graph, printed exactly once (VIEW hides act) *)
DumpNext == Next /\ PrintT(<<"T", ToJson([f |-> Proj(gs), a |-> act', t |-> Proj(gs')])>>)
=============================================================================
