CONSTANTS
  Handles = {1, 2}
  MaxN = 3
INIT Init
NEXT Next
VIEW View
INVARIANTS TypeOK Handshake AddThenRemove InducedIdentity
PROPERTY OnlyTarget
CHECK_DEADLOCK FALSE
