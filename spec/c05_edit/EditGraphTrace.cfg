INIT Init
NEXT Step
INVARIANTS Report ModelOK
CHECK_DEADLOCK FALSE
