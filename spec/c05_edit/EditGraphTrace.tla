-------------------------- MODULE EditGraphTrace ----------------------------
(***************************************************************************)
(* C05, code -> spec.  Monitor-style acceptor: consumes the ndjson trace of *)
(* edit histories executed on the real DenseGraph / SparseGraph, replays    *)
(* every logged action on EditGraph's abstract operators and checks the     *)
(* logged observation of EVERY live handle against the model after EVERY    *)
(* action.  A segment (one history) that disagrees is reported once.        *)
(***************************************************************************)
EXTENDS Graphs, TraceLib

VARIABLES l,        \* next event to consume
          gs,       \* model: handle -> graph (function over 1..3)
          dead,     \* current segment already reported
          bad,      \* findings
          st        \* statistics

H == 1..3
NoG == [n |-> -1, E |-> {}]
Ev == Trace[l]
SeqRange(s) == { s[i] : i \in 1..Len(s) }
GraphOfRanks(n, e) == [n |-> n, E |-> { d \in AllPairs(n) : EdgeRank(d) \in SeqRange(e) }]

Apply(g, a) ==
    CASE a.op = "Create"       -> [g EXCEPT ![a.h] = GraphOfRanks(a.n, a.e)]
      [] a.op = "AddVertex"    -> [g EXCEPT ![a.h] = AddVertex(@, SeqRange(a.nb))]
      [] a.op = "RemoveVertex" -> [g EXCEPT ![a.h] = RemoveVertex(@, a.v)]
      [] a.op = "AddEdge"      -> [g EXCEPT ![a.h] = AddEdge(@, a.i, a.j)]
      [] a.op = "RemoveEdge"   -> [g EXCEPT ![a.h] = RemoveEdge(@, a.i, a.j)]
      [] a.op = "Copy"         -> [g EXCEPT ![a.h2] = g[a.h]]
      [] a.op = "Induced"      -> [g EXCEPT ![a.h2] = Induced(g[a.h], a.V)]

(* arguments are valid for the documented API (the quantifier of C05) *)
ValidArgs(g, a) ==
    LET n == g[a.h].n IN
    CASE a.op = "Create"       -> TRUE
      [] a.op = "AddVertex"    -> n >= 0 /\ IsInjectiveSeq(a.nb) /\ SeqRange(a.nb) \subseteq Verts(n)
      [] a.op = "RemoveVertex" -> a.v \in Verts(n)
      [] a.op \in {"AddEdge", "RemoveEdge"} -> a.i \in Verts(n) /\ a.j \in Verts(n)
      [] a.op = "Copy"         -> n >= 0
      [] a.op = "Induced"      -> n >= 0 /\ IsInjectiveSeq(a.V) /\ SeqRange(a.V) \subseteq Verts(n)

(* first disagreement between the logged observations and the model, "" if none *)
Check(g, e) ==
    IF e.res # "ok" THEN e.res
    ELSE IF { o.h : o \in SeqRange(e.obs) } # { h \in H : g[h].n >= 0 } THEN "set of live handles"
    ELSE LET wrong == { i \in 1..Len(e.obs) :
                          e.obs[i].res # "ok" \/ ~ObsMatches(e.obs[i].o, g[e.obs[i].h]) }
         IN IF wrong = {} THEN ""
            ELSE LET i == Min(wrong) IN
                 IF e.obs[i].res # "ok" THEN "observer " \o e.obs[i].res
                 ELSE "handle " \o ToString(e.obs[i].h) \o ": " \o ObsWhy(e.obs[i].o, g[e.obs[i].h])

Init == l = 1 /\ gs = [h \in H |-> NoG] /\ dead = FALSE /\ bad = <<>>
        /\ st = [segs |-> 0, ops |-> 0, obs |-> 0, nontrivial |-> 0]

Step ==
    /\ l <= NEvents
    /\ l' = l + 1
    /\ IF Ev.ev = "Reset"
       THEN /\ gs' = [h \in H |-> NoG] /\ dead' = FALSE /\ bad' = bad
            /\ st' = [st EXCEPT !.segs = @ + 1]
       ELSE IF dead THEN UNCHANGED <<gs, dead, bad, st>>
       ELSE IF ~ValidArgs(gs, Ev.a)
            THEN /\ bad' = Note(bad, [seg |-> Ev.seg, l |-> l, why |-> "HARNESS: invalid arguments logged"])
                 /\ dead' = TRUE /\ UNCHANGED <<gs, st>>
       ELSE LET g2 == Apply(gs, Ev.a)  why == Check(g2, Ev) IN
            /\ gs' = g2
            /\ dead' = (why # "")
            /\ bad' = IF why = "" THEN bad ELSE Note(bad, [seg |-> Ev.seg, l |-> l, why |-> why \o " after " \o Ev.a.op])
            /\ st' = [st EXCEPT !.ops = @ + 1, !.obs = @ + Len(Ev.obs),
                                !.nontrivial = @ + (IF Ev.a.op \in {"RemoveVertex", "Induced"} THEN 1 ELSE 0)]

Report == ReportLine(l, [bad |-> bad, st |-> st, events |-> NEvents])
(* the model the monitor maintains is always a table of simple graphs *)
ModelOK == \A h \in H : gs[h] = NoG \/ IsGraph(gs[h])
=============================================================================
