CONSTANTS
  Handles = {1, 2}
  MaxN = 4
INIT Init
NEXT DumpNext
VIEW View
CHECK_DEADLOCK FALSE
