CONSTANTS
  MaxOps = 9
  OracleN = 8
  Starts = {"k4"}
  GlueK5 = FALSE
  CrossEdge = TRUE
  Randomised = TRUE
INIT Init
NEXT Next
INVARIANTS EulerBound FacesAreTriangles OracleAgrees
CHECK_DEADLOCK FALSE
