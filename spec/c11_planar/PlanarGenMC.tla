------------------------------ MODULE PlanarGenMC -----------------------------
EXTENDS PlanarGen, Json
(* emitted once per complete behaviour in simulation mode, and for every state in the exhaustive dump *)
J == [kind |-> kind, n |-> G.n, e |-> SortedSeq(CodeOf(G)), hist |-> hist]
EmitFull == Len(hist) < MaxOps \/ PrintT(<<"B", ToJson(J)>>)
EmitAll  == PrintT(<<"B", ToJson(J)>>)
=============================================================================
