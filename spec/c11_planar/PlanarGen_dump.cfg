CONSTANTS
  MaxOps = 3
  OracleN = 0
INIT Init
NEXT Next
INVARIANT EmitAll
CHECK_DEADLOCK FALSE
