CONSTANTS
  MaxOps = 40
  OracleN = 0
  Starts = {"k4", "k5", "k33"}
  GlueK5 = TRUE
  CrossEdge = TRUE
  Randomised = TRUE
INIT Init
NEXT Next
INVARIANT EmitAll
CHECK_DEADLOCK FALSE
