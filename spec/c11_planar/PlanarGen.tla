------------------------------- MODULE PlanarGen ------------------------------
(***************************************************************************)
(* C11.  Generators of graphs whose planarity is known BY CONSTRUCTION, so  *)
(* that IsPlanar can be judged far beyond the sizes where an exhaustive     *)
(* oracle exists.                                                           *)
(*  planar   : start from K4 embedded in the sphere (4 triangular faces);   *)
(*             phase 1 puts new vertices into triangular faces (the face    *)
(*             set is tracked: stacked triangulations, m = 3n - 6);         *)
(*             phase 2 takes subgraphs and planarity-preserving extensions: *)
(*             delete an edge, subdivide an edge, hang a pendant vertex,    *)
(*             add an isolated vertex.                                      *)
(*  nonplanar: start from K5 or K3,3; subdivide edges, add edges, add       *)
(*             vertices with arbitrary neighbours, hang pendant vertices    *)
(*             (every step keeps a subdivision of K5 / K3,3 as a subgraph). *)
(* hist records the operations so that the harness can rebuild the graph    *)
(* with the real EditableGraph operations.  For small graphs TLC checks the *)
(* generator itself against the exact oracle IsPlanar of GraphTheory.tla.   *)
(***************************************************************************)
EXTENDS GraphTheory

CONSTANTS MaxOps, OracleN,         \* behaviours of at most MaxOps operations; oracle cross-check up to OracleN vertices
          Starts,                  \* which of "k4" (planar), "k5", "k33" a behaviour may start from
          GlueK5,                  \* whether a K5 block may be glued on (turns a planar graph into a non-planar one)
          CrossEdge,               \* whether an edge may be added to a TRIANGULATION (m = 3n - 6 + 1: non-planar by Euler's bound, the
                                   \* Kuratowski subgraph is wherever the triangulation puts it, not near the vertices added last)
          Randomised               \* TRUE for simulation: every class of operation offers ONE randomly parameterised successor, so that
                                   \* TLC's uniform choice among successors is uniform over the classes (long, balanced behaviours);
                                   \* FALSE for exhaustive exploration: every parameter value is a successor
VARIABLES G, faces, kind, phase, hist
vars == <<G, faces, kind, phase, hist>>

Op(name, a, b, S) == [op |-> name, a |-> a, b |-> b, S |-> S]
K4  == MkGraph(4, AllPairs(4))
K5  == MkGraph(5, AllPairs(5))
K33 == MkGraph(6, { e \in AllPairs(6) : Min(e) < 3 /\ Max(e) >= 3 })

Init == \/ "k4" \in Starts /\ G = K4 /\ faces = { {0,1,2}, {0,1,3}, {0,2,3}, {1,2,3} } /\ kind = "planar" /\ phase = 1 /\ hist = << Op("k4", 0, 0, <<>>) >>
        \/ "k5" \in Starts /\ G = K5 /\ faces = {} /\ kind = "nonplanar" /\ phase = 2 /\ hist = << Op("k5", 0, 0, <<>>) >>
        \/ "k33" \in Starts /\ G = K33 /\ faces = {} /\ kind = "nonplanar" /\ phase = 2 /\ hist = << Op("k33", 0, 0, <<>>) >>

Room == Len(hist) < MaxOps
(* a new vertex inside the triangular face f, joined to its three corners *)
Stellate(f) == /\ Room /\ kind = "planar" /\ phase = 1 /\ f \in faces
               /\ G' = AddVertex(G, f)
               /\ faces' = (faces \ {f}) \cup { (f \ {x}) \cup {G.n} : x \in f }
               /\ hist' = Append(hist, Op("addvertex", 0, 0, SortedSeq(f))) /\ UNCHANGED <<kind, phase>>
(* diagonal flip of a triangulation of the sphere: the edge ab lies on exactly two faces abc, abd; if cd is not yet an edge, replacing ab
   by cd gives another triangulation (every triangulation is reachable by flips: not only the stacked ones, which always keep vertices of
   degree 3).  Two edit operations in hist. *)
Thirds(e)    == { Min(f \ e) : f \in { g \in faces : e \subseteq g } }
Flippable    == { e \in G.E : Cardinality({ g \in faces : e \subseteq g }) = 2 /\ Cardinality(Thirds(e)) = 2 /\ Thirds(e) \notin G.E }
Flip(e)      == /\ Len(hist) + 2 <= MaxOps /\ kind = "planar" /\ phase = 1 /\ e \in Flippable
                /\ LET d == Thirds(e) IN
                   /\ G' = [n |-> G.n, E |-> (G.E \ {e}) \cup {d}]
                   /\ faces' = { f \in faces : ~(e \subseteq f) } \cup { d \cup {x} : x \in e }
                   /\ hist' = hist \o << Op("removeedge", Min(e), Max(e), <<>>), Op("addedge", Min(d), Max(d), <<>>) >>
                /\ UNCHANGED <<kind, phase>>
(* one more edge on a triangulation: 3n - 5 edges, so non-planar whatever the edge is *)
Cross(e)     == /\ Room /\ CrossEdge /\ kind = "planar" /\ phase = 1 /\ e \in AllPairs(G.n) \ G.E
                /\ G' = AddEdge(G, Min(e), Max(e)) /\ hist' = Append(hist, Op("addedge", Min(e), Max(e), <<>>))
                /\ kind' = "nonplanar" /\ phase' = 2 /\ UNCHANGED faces
EndPhase1   == Room /\ phase = 1 /\ phase' = 2 /\ UNCHANGED <<G, faces, kind, hist>>
DelEdge(e)  == /\ Room /\ kind = "planar" /\ phase = 2 /\ e \in G.E
               /\ G' = RemoveEdge(G, Min(e), Max(e)) /\ hist' = Append(hist, Op("removeedge", Min(e), Max(e), <<>>)) /\ UNCHANGED <<faces, kind, phase>>
Subdivide(e) == /\ Room /\ phase = 2 /\ e \in G.E
               /\ G' = SplitEdge(G, Min(e), Max(e)) /\ hist' = Append(hist, Op("splitedge", Min(e), Max(e), <<>>)) /\ UNCHANGED <<faces, kind, phase>>
Pendant(v)  == /\ Room /\ phase = 2 /\ v \in Verts(G.n)
               /\ G' = AddVertex(G, {v}) /\ hist' = Append(hist, Op("addvertex", 0, 0, <<v>>)) /\ UNCHANGED <<faces, kind, phase>>
Isolated    == /\ Room /\ phase = 2
               /\ G' = AddVertex(G, {}) /\ hist' = Append(hist, Op("addvertex", 0, 0, <<>>)) /\ UNCHANGED <<faces, kind, phase>>
(* a new block: a complete graph on v and k new vertices glued at v.  k = 3 (K4) keeps the kind, k = 4 (K5) makes the graph non-planar *)
Glue(v, k) == /\ Len(hist) + k <= MaxOps /\ phase = 2 /\ v \in Verts(G.n) /\ k \in {3, 4} /\ (k = 4 => GlueK5)
              /\ LET n == G.n
                     new == n..(n + k - 1)
                     ops == [i \in 1..k |-> Op("addvertex", 0, 0, SortedSeq({v} \cup (n..(n + i - 2))))] IN
                 /\ G' = [n |-> n + k, E |-> G.E \cup { {v, x} : x \in new } \cup { e \in SUBSET new : Cardinality(e) = 2 }]
                 /\ hist' = hist \o ops
              /\ kind' = (IF k = 4 THEN "nonplanar" ELSE kind) /\ UNCHANGED <<faces, phase>>
AddEdgeNP(e) == /\ Room /\ kind = "nonplanar" /\ e \in AllPairs(G.n) \ G.E
               /\ G' = AddEdge(G, Min(e), Max(e)) /\ hist' = Append(hist, Op("addedge", Min(e), Max(e), <<>>)) /\ UNCHANGED <<faces, kind, phase>>
AddVertexNP(S) == /\ Room /\ kind = "nonplanar" /\ S \subseteq Verts(G.n)
               /\ G' = AddVertex(G, S) /\ hist' = Append(hist, Op("addvertex", 0, 0, SortedSeq(S))) /\ UNCHANGED <<faces, kind, phase>>

(* a new component: a path on k new vertices (planarity is a property of the components) *)
NewPath(k) == /\ Len(hist) + k <= MaxOps /\ phase = 2 /\ k \in {2, 3}
              /\ LET n == G.n
                     ops == [i \in 1..k |-> Op("addvertex", 0, 0, IF i = 1 THEN <<>> ELSE <<n + i - 2>>)] IN
                 /\ G' = [n |-> n + k, E |-> G.E \cup { {n + i - 1, n + i} : i \in 1..(k - 1) }]
                 /\ hist' = hist \o ops
              /\ UNCHANGED <<faces, kind, phase>>

(* the vertices that new edges / vertices of the non-planar generator attach to: keeps the branching of long behaviours small *)
Window == { v \in Verts(G.n) : v < 2 \/ v >= G.n - 3 }
Pick(S) == IF Randomised THEN (IF S = {} THEN {} ELSE { RandomElement(S) }) ELSE S
Often(k) == ~Randomised \/ RandomElement(1..k) = 1            \* in simulation: take this class only once in k times it is offered
Next == \/ \E f \in Pick(faces) : Stellate(f)
        \/ \E e \in Pick(Flippable) : Flip(e)
        \/ Often(12) /\ \E e \in Pick(AllPairs(G.n) \ G.E) : Cross(e)
        \/ Often(10) /\ EndPhase1
        \/ Often(3) /\ \E e \in Pick(G.E) : DelEdge(e)
        \/ \E e \in Pick(G.E) : Subdivide(e)
        \/ \E v \in Pick(Verts(G.n)) : Pendant(v)
        \/ Often(2) /\ Isolated
        \/ \E v \in Pick(Window) : Glue(v, 3)
        \/ \E v \in Pick(Window) : Glue(v, 4)
        \/ \E k \in Pick({2, 3}) : NewPath(k)
        \/ \E a \in Pick(Window), b \in Pick(Verts(G.n)) : a # b /\ AddEdgeNP({a, b})
        \/ \E a \in Pick(Window), b \in Pick(Window), c \in Pick(Window) : AddVertexNP({a, b, c})               \* 1, 2 or 3 neighbours among a few old and the newest vertices
        \/ Often(2) /\ AddVertexNP({})
Spec == Init /\ [][Next]_vars

(* ---- properties of the generator itself ---- *)
EulerBound   == kind = "planar" /\ G.n >= 3 => NumEdges(G) <= 3 * G.n - 6
FacesAreTriangles == phase = 1 => /\ \A f \in faces : Cardinality(f) = 3 /\ IsClique(G, f)
                                  /\ NumEdges(G) = 3 * G.n - 6 /\ Cardinality(faces) = 2 * G.n - 4           \* Euler: n - m + f = 2
OracleAgrees == G.n <= OracleN => IsPlanar(G) = (kind = "planar")
=============================================================================
