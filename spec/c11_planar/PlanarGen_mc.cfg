CONSTANTS
  MaxOps = 4
  OracleN = 7
INIT Init
NEXT Next
INVARIANTS EulerBound FacesAreTriangles OracleAgrees
CHECK_DEADLOCK FALSE
