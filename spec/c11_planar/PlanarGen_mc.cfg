CONSTANTS
  MaxOps = 4
  OracleN = 7
  Starts = {"k4", "k5", "k33"}
  GlueK5 = TRUE
  CrossEdge = TRUE
  Randomised = FALSE
INIT Init
NEXT Next
INVARIANTS EulerBound FacesAreTriangles OracleAgrees
CHECK_DEADLOCK FALSE
