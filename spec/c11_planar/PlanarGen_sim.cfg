CONSTANTS
  MaxOps = 40
  OracleN = 0
INIT Init
NEXT Next
INVARIANT EmitFull
CHECK_DEADLOCK FALSE
