CONSTANTS
  MaxOps = 40
  OracleN = 0
  Starts = {"k4"}
  GlueK5 = FALSE
  CrossEdge = FALSE
  Randomised = TRUE
INIT Init
NEXT Next
INVARIANT EmitAll
CHECK_DEADLOCK FALSE
