CONSTANT N = 4
INIT Init
NEXT Next
INVARIANTS AutosSound FinalMax FinalOrbits GensGenerate Equitable RefineInvariant
CHECK_DEADLOCK FALSE
