-------------------------------- MODULE Canon --------------------------------
(***************************************************************************)
(* C01 / C02, design level.  Canonical labelling by individualisation and   *)
(* refinement with automorphism pruning, as a state machine:                *)
(*   - the state is a depth-first position in the search tree whose nodes   *)
(*     are equitable ordered partitions;                                    *)
(*   - Refine is the coarsest equitable refinement computed only from       *)
(*     counts and cell positions (so it commutes with relabelling);         *)
(*   - a leaf (discrete partition) yields a certificate; the first leaf and *)
(*     the best (largest certificate) leaf are remembered; a leaf whose     *)
(*     certificate equals one of them yields an automorphism;               *)
(*   - a child v of a node is skipped when an already explored sibling lies *)
(*     in the orbit of v under the recorded automorphisms that fix the path *)
(*     to the node pointwise (the SOUND pruning rule).                      *)
(* Checked by TLC for every labelled graph on N vertices: every recorded    *)
(* automorphism is one (AutosSound); the final certificate is the maximum   *)
(* over the UNPRUNED tree, hence a complete isomorphism invariant           *)
(* (FinalMax + RefineInvariant); the orbits of the recorded automorphisms   *)
(* are the orbits of Aut(G) (FinalOrbits) and they generate Aut(G)          *)
(* (GensGenerate).                                                          *)
(***************************************************************************)
EXTENDS Integers, Sequences, FiniteSets, FiniteSetsExt, SequencesExt, TLC

CONSTANT N
V     == 0..(N-1)
Pairs == { e \in SUBSET V : Cardinality(e) = 2 }

VARIABLES E,      \* the graph (chosen in Init, constant afterwards)
          part,   \* stack of ordered partitions (sequences of sets); Top is the current node
          path,   \* the vertices individualised on the way to the current node
          tried,  \* per level: the children already explored (or being explored)
          first, best,   \* [ord, code] of the first / best leaf, NoLeaf before
          autos,  \* recorded automorphisms (functions V -> V)
          pc      \* "node" | "step" | "back" | "done"
vars == <<E, part, path, tried, first, best, autos, pc>>

Top == part[Len(part)]
Deg(G, v, C)  == Cardinality({ w \in C : {v, w} \in G })
IsDiscrete(P) == \A i \in 1..Len(P) : Cardinality(P[i]) = 1
CellOf(P, v)  == CHOOSE i \in 1..Len(P) : v \in P[i]
(* individualise v: its cell {..v..} becomes {v}, rest *)
Ind(P, v) == LET i == CellOf(P, v) IN
             IF Cardinality(P[i]) = 1 THEN P
             ELSE SubSeq(P, 1, i-1) \o << {v}, P[i] \ {v} >> \o SubSeq(P, i+1, Len(P))
(* split cell j by the number of neighbours in cell i, smaller counts first *)
SplitBy(G, P, i, j) == LET counts == SetToSortSeq({ Deg(G, v, P[i]) : v \in P[j] }, <) IN
                       SubSeq(P, 1, j-1) \o [k \in 1..Len(counts) |-> { v \in P[j] : Deg(G, v, P[i]) = counts[k] }]
                       \o SubSeq(P, j+1, Len(P))
Unstable(G, P) == { ij \in (1..Len(P)) \X (1..Len(P)) : Cardinality({ Deg(G, v, P[ij[1]]) : v \in P[ij[2]] }) > 1 }
RECURSIVE Refine(_, _)
Refine(G, P) == LET U == Unstable(G, P) IN
                IF U = {} THEN P
                ELSE LET ij == CHOOSE a \in U : \A b \in U : a[1] < b[1] \/ (a[1] = b[1] /\ a[2] <= b[2]) IN
                     Refine(G, SplitBy(G, P, ij[1], ij[2]))
Target(P) == CHOOSE i \in 1..Len(P) : Cardinality(P[i]) > 1 /\ \A k \in 1..(i-1) : Cardinality(P[k]) = 1
(* a discrete partition as an ordering: position i (1-based) holds vertex Ord(P)[i] *)
Ord(P) == [i \in 1..Len(P) |-> CHOOSE v \in P[i] : TRUE]
(* certificate of a leaf: the edges as pairs of positions; compared as bit strings *)
Cert(G, ord) == { {i, j} : i, j \in 1..Len(ord) } \cap { {i, j} : i, j \in { a \in 1..Len(ord) : TRUE } } \cap
                { e \in SUBSET (1..Len(ord)) : Cardinality(e) = 2 /\ { ord[i] : i \in e } \in G }
RankP(e) == LET i == Min(e)  j == Max(e) IN ((j - 1) * (j - 2)) \div 2 + i
CodeLess(A, B) == A # B /\ LET D == { RankP(e) : e \in (A \ B) \cup (B \ A) } IN
                           \E e \in B \ A : RankP(e) = Max(D)
NoLeaf == [ord |-> <<>>, code |-> {}]
(* the automorphism candidate mapping leaf a onto leaf b *)
AutoFrom(a, b) == [v \in V |-> b[CHOOSE i \in 1..N : a[i] = v]]

RECURSIVE FullMax(_, _)      \* oracle: the largest certificate over the whole unpruned tree below P
FullMax(G, P) == IF IsDiscrete(P) THEN Cert(G, Ord(P))
                 ELSE LET cs == { FullMax(G, Refine(G, Ind(P, v))) : v \in P[Target(P)] } IN
                      CHOOSE c \in cs : \A d \in cs : d = c \/ CodeLess(d, c)
RECURSIVE Reach(_, _)        \* orbit of a set of vertices under a set of permutations
Reach(S, gens) == LET S2 == S \cup { g[x] : g \in gens, x \in S } \cup { y \in V : \E g \in gens : g[y] \in S }
                  IN IF S2 = S THEN S ELSE Reach(S2, gens)
Fixing == { g \in autos : \A i \in 1..Len(path) : g[path[i]] = path[i] }
IsAut(G, g) == { g[x] : x \in V } = V /\ { { g[x] : x \in e } : e \in G } = G
AllAuts(G)  == { g \in [V -> V] : IsAut(G, g) }

Init == /\ E \in SUBSET Pairs
        /\ part = << Refine(E, <<V>>) >> /\ path = <<>> /\ tried = <<>>
        /\ first = NoLeaf /\ best = NoLeaf /\ autos = {} /\ pc = "node"

VisitLeaf ==
    /\ pc = "node" /\ IsDiscrete(Top)
    /\ LET o == Ord(Top)  c == Cert(E, o)  leaf == [ord |-> o, code |-> c] IN
       /\ first' = IF first = NoLeaf THEN leaf ELSE first
       /\ best'  = IF best = NoLeaf \/ CodeLess(best.code, c) THEN leaf ELSE best
       /\ autos' = autos \cup (IF first # NoLeaf /\ first.code = c THEN { AutoFrom(first.ord, o) } ELSE {})
                         \cup (IF best # NoLeaf /\ best.code = c THEN { AutoFrom(best.ord, o) } ELSE {})
    /\ pc' = "back" /\ UNCHANGED <<E, part, path, tried>>

Descend ==
    /\ pc = "node" /\ ~IsDiscrete(Top)
    /\ tried' = Append(tried, {}) /\ pc' = "step"
    /\ UNCHANGED <<E, part, path, first, best, autos>>

(* at the node Top with some children already tried: take the next candidate (largest first) *)
Step ==
    /\ pc = "step"
    /\ LET lvl == Len(tried)
           cell == Top[Target(Top)]
           skipped == { v \in cell \ tried[lvl] : Reach({v}, Fixing) \cap tried[lvl] # {} }     \* pruned by the sound rule
           cands == (cell \ tried[lvl]) \ skipped IN
       IF cands = {}
       THEN /\ tried' = SubSeq(tried, 1, lvl - 1) /\ pc' = "back"
            /\ UNCHANGED <<E, part, path, first, best, autos>>
       ELSE LET v == Max(cands) IN
            /\ tried' = [tried EXCEPT ![lvl] = @ \cup {v}]
            /\ part' = Append(part, Refine(E, Ind(Top, v)))
            /\ path' = Append(path, v) /\ pc' = "node"
            /\ UNCHANGED <<E, first, best, autos>>

Back ==
    /\ pc = "back"
    /\ IF path = <<>> THEN pc' = "done" /\ UNCHANGED <<E, part, path, tried, first, best, autos>>
       ELSE /\ part' = SubSeq(part, 1, Len(part) - 1) /\ path' = SubSeq(path, 1, Len(path) - 1)
            /\ pc' = "step" /\ UNCHANGED <<E, tried, first, best, autos>>

Next == VisitLeaf \/ Descend \/ Step \/ Back
Spec == Init /\ [][Next]_vars

(* ---- properties ---- *)
AutosSound   == \A g \in autos : IsAut(E, g)
FinalMax     == pc = "done" => best.code = FullMax(E, Refine(E, <<V>>))
FinalOrbits  == pc = "done" => \A v \in V : Reach({v}, autos) = Reach({v}, AllAuts(E))
RECURSIVE Closure(_, _)
Closure(S, gens) == LET S2 == S \cup { [x \in V |-> g[s[x]]] : g \in gens, s \in S } IN IF S2 = S THEN S ELSE Closure(S2, gens)
GensGenerate == pc = "done" => Closure({ [x \in V |-> x] }, autos) = AllAuts(E)
(* every part on the stack is equitable, and refines its parent *)
Equitable    == \A k \in 1..Len(part) : Unstable(E, part[k]) = {}
=============================================================================
