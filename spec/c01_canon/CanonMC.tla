------------------------------- MODULE CanonMC -------------------------------
EXTENDS Canon
(* relabelling invariance of the refinement: Refine(pi G, pi P) = pi Refine(G, P) for all pi, on the initial partition
   and on every partition obtained by individualising one vertex (checked as an invariant in the initial states only) *)
Perms == { p \in [V -> V] : { p[x] : x \in V } = V }
MapG(p, G) == { { p[x] : x \in e } : e \in G }
MapP(p, P) == [i \in 1..Len(P) |-> { p[x] : x \in P[i] }]
RefineInvariant == pc = "node" /\ path = <<>> =>
    \A p \in Perms : /\ Refine(MapG(p, E), <<V>>) = MapP(p, Refine(E, <<V>>))
                     /\ \A v \in V : Refine(MapG(p, E), Ind(MapP(p, Top), p[v])) = MapP(p, Refine(E, Ind(Top, v)))
=============================================================================
