CONSTANT N = 6
INIT Init
NEXT Next
INVARIANTS AutosSound FinalMax FinalOrbits GensGenerate Equitable
CHECK_DEADLOCK FALSE
