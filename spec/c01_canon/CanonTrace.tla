------------------------------ MODULE CanonTrace -----------------------------
(***************************************************************************)
(* C01 / C02, code -> spec (black box).                                     *)
(*  CanonSum  : for one graph g, the canonical graphs the real              *)
(*              CanonicalIsomorph produced over a family of relabellings    *)
(*              pi (and both representations): the distinct canonical       *)
(*              edge sets, each with a witness (pi, perm).  The monitor     *)
(*              checks every witness (perm is a permutation and the         *)
(*              relabelled graph IS the claimed canonical graph, hence      *)
(*              isomorphic to g) and that there is exactly one canonical    *)
(*              graph.                                                      *)
(*  CanonFull : one call of CanonicalIsomorphFull / ...Allocated: the       *)
(*              returned orbit partition must be the orbit partition of     *)
(*              Aut(g) (class-preserving when classes are given), every     *)
(*              generator an automorphism, the generators generate Aut(g),  *)
(*              and a call on reused storage equals the fresh call.         *)
(* Aut(g) is computed by brute force over all permutations (n <= 8).        *)
(***************************************************************************)
EXTENDS Graphs, TraceLib

VARIABLES l, bad, st
Ev == Trace[l]
SeqRange(s) == { s[i] : i \in 1..Len(s) }
GofJ(g) == GraphOfRankSet(g.n, SeqRange(g.e))
FnOfSeq(p) == [v \in 0..(Len(p) - 1) |-> p[v + 1]]
IsPermS(p, n) == Len(p) = n /\ SeqRange(p) = Verts(n)

(* class-preserving automorphisms as functions; cls: sequence of sequences (empty = no classes) *)
ClassSets(cls) == { SeqRange(cls[i]) : i \in 1..Len(cls) }
PreservesClasses(f, cls) == \A C \in ClassSets(cls) : { f[x] : x \in C } = C
IsAutF(G, f, cls) == DOMAIN f = Verts(G.n) /\ { f[x] : x \in Verts(G.n) } = Verts(G.n)
                     /\ (\A e \in G.E : { f[x] : x \in e } \in G.E) /\ PreservesClasses(f, cls)
AutF(G, cls) == { f \in Permutations(Verts(G.n)) : (\A e \in G.E : { f[x] : x \in e } \in G.E) /\ PreservesClasses(f, cls) }
RECURSIVE ReachF(_, _)
ReachF(S, fs) == LET S2 == S \cup { f[x] : f \in fs, x \in S } IN IF S2 = S THEN S ELSE ReachF(S2, fs)
OrbitsF(n, fs) == { ReachF({v}, fs) : v \in Verts(n) }
RECURSIVE ClosureF(_, _)
ClosureF(S, gens) == LET S2 == S \cup { [x \in DOMAIN g |-> g[s[x]]] : g \in gens, s \in S } IN IF S2 = S THEN S ELSE ClosureF(S2, gens)
RelabelS(G, p) == Relabel(G, p)

JudgeSum(e) ==
    LET G == GofJ(e.g) IN
    IF e.res # "ok" THEN e.res
    ELSE IF \E k \in 1..Len(e.wit) : ~IsPermS(e.wit[k].pi, G.n) THEN "HARNESS: relabelling is not a permutation"
    ELSE IF \E k \in 1..Len(e.wit) : ~IsPermS(e.wit[k].perm, G.n) THEN "CanonicalIsomorph did not return a permutation of 0..n-1"
    ELSE IF \E k \in 1..Len(e.wit) : RankSetOf(RelabelS(RelabelS(G, e.wit[k].pi), e.wit[k].perm)) # SeqRange(e.codes[k]) THEN "HARNESS: logged canonical graph is not the relabelled graph"
    ELSE IF Len(e.codes) # 1 THEN "relabellings of one graph have different canonical graphs"
    ELSE ""

JudgeFull(e) ==
    LET G0 == GofJ(e.g)
        G == RelabelS(G0, e.pi)
        n == G.n
        gens == { FnOfSeq(e.gens[k]) : k \in 1..Len(e.gens) }
        orbs == { SeqRange(e.orbits[k]) : k \in 1..Len(e.orbits) } IN
    IF e.res # "ok" THEN e.res
    ELSE IF ~IsPermS(e.perm, n) THEN "returned permutation is not a permutation of 0..n-1"
    ELSE IF n = 0 THEN ""
    ELSE IF \E k \in 1..Len(e.gens) : ~IsPermS(e.gens[k], n) \/ ~IsAutF(G, FnOfSeq(e.gens[k]), e.classes) THEN "a returned generator is not a (class-preserving) automorphism"
    ELSE IF \E k \in 1..Len(e.known) : ~IsPermS(e.known[k], n) \/ ~IsAutF(G, FnOfSeq(e.known[k]), e.classes) THEN "HARNESS: a 'known' automorphism is not one"
    ELSE IF \E k \in 1..Len(e.known) : \E v \in Verts(n) : ~\E O \in orbs : v \in O /\ e.known[k][v + 1] \in O THEN "an automorphism known by construction moves a vertex out of its returned orbit (orbits too fine)"
    ELSE IF e.reused /\ (e.perm # e.fresh.perm \/ e.orbits # e.fresh.orbits \/ e.gens # e.fresh.gens) THEN "the call on reused storage differs from the fresh call"
    ELSE IF ~e.bf THEN (IF OrbitsF(n, gens) # orbs THEN "returned orbits are not the orbits of the returned generators" ELSE "")
    ELSE LET A == AutF(G, e.classes) IN
         IF orbs # OrbitsF(n, A) THEN "returned orbits are not the orbits of the automorphism group"
         ELSE IF Cardinality(ClosureF({ [x \in Verts(n) |-> x] }, gens)) # Cardinality(A) THEN "the returned generators do not generate the automorphism group"
         ELSE ""

TInit == l = 1 /\ bad = <<>> /\ st = [segs |-> 0, sums |-> 0, relabellings |-> 0, fulls |-> 0, bfauts |-> 0, reused |-> 0, nontrivial |-> 0]
Flag(why) == bad' = IF why = "" THEN bad ELSE Note(bad, [seg |-> Ev.seg, l |-> l, why |-> why \o " [" \o Ev.ev \o "]"])
TStep ==
    /\ l <= NEvents /\ l' = l + 1
    /\ IF Ev.ev = "Reset" THEN bad' = bad /\ st' = [st EXCEPT !.segs = @ + 1]
       ELSE IF Ev.ev = "CanonSum"
       THEN /\ Flag(JudgeSum(Ev))
            /\ st' = [st EXCEPT !.sums = @ + 1, !.relabellings = @ + Ev.tried, !.nontrivial = @ + (IF Ev.nt THEN 1 ELSE 0)]
       ELSE /\ Flag(JudgeFull(Ev))
            /\ st' = [st EXCEPT !.fulls = @ + 1, !.bfauts = @ + (IF Ev.bf THEN 1 ELSE 0), !.reused = @ + (IF Ev.reused THEN 1 ELSE 0),
                                !.nontrivial = @ + (IF Len(Ev.gens) > 0 THEN 1 ELSE 0)]
Report == ReportLine(l, [bad |-> bad, st |-> st, events |-> NEvents])
=============================================================================
