------------------------------ MODULE CanonTrace -----------------------------
(***************************************************************************)
(* C01 / C02, code -> spec (black box).                                     *)
(*  CanonSum  : for one graph g, the canonical graphs the real              *)
(*              CanonicalIsomorph produced over a family of relabellings    *)
(*              pi (and both representations): the distinct canonical       *)
(*              edge sets, each with a witness (pi, perm).  The monitor     *)
(*              checks every witness (perm is a permutation and the         *)
(*              relabelled graph IS the claimed canonical graph, hence      *)
(*              isomorphic to g) and that there is exactly one canonical    *)
(*              graph.                                                      *)
(*  CanonFull : one call of CanonicalIsomorphFull / ...Allocated: the       *)
(*              returned orbit partition must be the orbit partition of     *)
(*              Aut(g) (class-preserving when classes are given), every     *)
(*              generator an automorphism, the generators generate Aut(g),  *)
(*              and a call on reused storage equals the fresh call.         *)
(* Aut(g) is computed by brute force over all permutations (n <= 8).        *)
(***************************************************************************)
EXTENDS Graphs, TraceLib

VARIABLES l, bad, st
Ev == Trace[l]
SeqRange(s) == { s[i] : i \in 1..Len(s) }
GofJ(g) == GraphOfRankSet(g.n, SeqRange(g.e))
FnOfSeq(p) == [v \in 0..(Len(p) - 1) |-> p[v + 1]]
IsPermS(p, n) == Len(p) = n /\ SeqRange(p) = Verts(n)

(* class-preserving automorphisms as functions; cls: sequence of sequences (empty = no classes) *)
ClassSets(cls) == { SeqRange(cls[i]) : i \in 1..Len(cls) }
PreservesClasses(f, cls) == \A C \in ClassSets(cls) : { f[x] : x \in C } = C
IsAutF(G, f, cls) == DOMAIN f = Verts(G.n) /\ { f[x] : x \in Verts(G.n) } = Verts(G.n)
                     /\ (\A e \in G.E : { f[x] : x \in e } \in G.E) /\ PreservesClasses(f, cls)
AutF(G, cls) == { f \in Permutations(Verts(G.n)) : (\A e \in G.E : { f[x] : x \in e } \in G.E) /\ PreservesClasses(f, cls) }
RECURSIVE ReachF(_, _)
ReachF(S, fs) == LET S2 == S \cup { f[x] : f \in fs, x \in S } IN IF S2 = S THEN S ELSE ReachF(S2, fs)
OrbitsF(n, fs) == { ReachF({v}, fs) : v \in Verts(n) }
(* closure of a set of permutations under composition with the generators, frontier by frontier *)
RECURSIVE ClosureFr(_, _, _)
ClosureFr(S, F, gens) == LET N == { [x \in DOMAIN g |-> g[s[x]]] : g \in gens, s \in F } \ S IN IF N = {} THEN S ELSE ClosureFr(S \cup N, N, gens)
RECURSIVE ClosureF(_, _)
ClosureF(S, gens) == LET S2 == S \cup { [x \in DOMAIN g |-> g[s[x]]] : g \in gens, s \in S } IN IF S2 = S THEN S ELSE ClosureF(S2, gens)
RelabelS(G, p) == Relabel(G, p)

JudgeSum(e) ==
    LET G == GofJ(e.g) IN
    IF e.res # "ok" THEN e.res
    ELSE IF \E k \in 1..Len(e.wit) : ~IsPermS(e.wit[k].pi, G.n) THEN "HARNESS: relabelling is not a permutation"
    ELSE IF \E k \in 1..Len(e.wit) : ~IsPermS(e.wit[k].perm, G.n) THEN "CanonicalIsomorph did not return a permutation of 0..n-1"
    ELSE IF \E k \in 1..Len(e.wit) : RankSetOf(RelabelS(RelabelS(G, e.wit[k].pi), e.wit[k].perm)) # SeqRange(e.codes[k]) THEN "HARNESS: logged canonical graph is not the relabelled graph"
    ELSE IF Len(e.codes) # 1 THEN "relabellings of one graph have different canonical graphs"
    ELSE ""

JudgeFull(e) ==
    LET G0 == GofJ(e.g)
        G == RelabelS(G0, e.pi)
        n == G.n
        gens == { FnOfSeq(e.gens[k]) : k \in 1..Len(e.gens) }
        orbs == { SeqRange(e.orbits[k]) : k \in 1..Len(e.orbits) } IN
    IF e.res # "ok" THEN e.res
    ELSE IF ~IsPermS(e.perm, n) THEN "returned permutation is not a permutation of 0..n-1"
    ELSE IF n = 0 THEN ""
    ELSE IF \E k \in 1..Len(e.gens) : ~IsPermS(e.gens[k], n) \/ ~IsAutF(G, FnOfSeq(e.gens[k]), e.classes) THEN "a returned generator is not a (class-preserving) automorphism"
    ELSE IF \E k \in 1..Len(e.known) : ~IsPermS(e.known[k], n) \/ ~IsAutF(G, FnOfSeq(e.known[k]), e.classes) THEN "HARNESS: a 'known' automorphism is not one"
    ELSE IF \E k \in 1..Len(e.known) : \E v \in Verts(n) : ~\E O \in orbs : v \in O /\ e.known[k][v + 1] \in O THEN "an automorphism known by construction moves a vertex out of its returned orbit (orbits too fine)"
    ELSE IF e.reused /\ (e.perm # e.fresh.perm \/ e.orbits # e.fresh.orbits \/ e.gens # e.fresh.gens) THEN "the call on reused storage differs from the fresh call"
    ELSE IF ~e.bf THEN (IF OrbitsF(n, gens) # orbs THEN "returned orbits are not the orbits of the returned generators"
                        ELSE IF e.order > 0 /\ Cardinality(ClosureFr({ [x \in Verts(n) |-> x] }, { [x \in Verts(n) |-> x] }, gens)) # e.order
                             THEN "the returned generators do not generate a group of the order the construction predicts for Aut(g)"
                        ELSE "")
    ELSE LET A == AutF(G, e.classes) IN
         IF orbs # OrbitsF(n, A) THEN "returned orbits are not the orbits of the automorphism group"
         ELSE IF Cardinality(ClosureF({ [x \in Verts(n) |-> x] }, gens)) # Cardinality(A) THEN "the returned generators do not generate the automorphism group"
         ELSE ""


(* ---------------- white box: the events of one search (hook graph.VerifCanonTracer) ---------------- *)
(* The monitor rebuilds the search node (the individualised vertices, by level) and judges every event against the design of     *)
(* Canon.tla: partitions are equitable ordered partitions with sorted cells, leaf certificates are the certificates of their       *)
(* orderings, equal certificates yield automorphisms, a back-jump does not go above the common ancestor, and - when a node is      *)
(* closed - every vertex skipped by orbit pruning has an explored sibling in its orbit under the TRUE stabiliser of the node.      *)
(* A failure is a LEAD: the check then sweeps all relabellings of that graph and reports only a real difference.                   *)
CellsOf(order, divs) == [k \in 1..Len(divs) |-> { order[i] : i \in ((IF k = 1 THEN 0 ELSE divs[k - 1]) + 1)..divs[k] }]
CellSortedOK(order, divs) == \A k \in 1..Len(divs) : \A i \in ((IF k = 1 THEN 0 ELSE divs[k - 1]) + 1)..(divs[k] - 1) : order[i] < order[i + 1]
EquitableP(G, P) == \A i, j \in 1..Len(P) : Cardinality({ Cardinality(Nbrs(G, v) \cap P[i]) : v \in P[j] }) <= 1
(* the certificate of an ordering in the code's encoding: for position j (0-based) the sorted codes j(j-1)/2 + k of the earlier positions k adjacent to it *)
RECURSIVE CertSeq(_, _, _)
CertSeq(G, order, j) == IF j > Len(order) THEN <<>>
                        ELSE SortedSeq({ ((j - 1) * (j - 2)) \div 2 + (k - 1) : k \in { q \in 1..(j - 1) : Adj(G, order[q], order[j]) } }) \o CertSeq(G, order, j + 1)
RECURSIVE SeqCmp(_, _, _)            \* ints.Compare
SeqCmp(a, b, i) == IF i > Len(a) /\ i > Len(b) THEN 0 ELSE IF i > Len(a) THEN -1 ELSE IF i > Len(b) THEN 1
                   ELSE IF a[i] > b[i] THEN 1 ELSE IF a[i] < b[i] THEN -1 ELSE SeqCmp(a, b, i + 1)
Lcp(a, b) == LET D == { i \in 1..Min({Len(a), Len(b)}) : a[i] # b[i] } IN IF D = {} THEN Min({Len(a), Len(b)}) ELSE Min(D) - 1
MapLeaf(a, b) == [v \in { a[i] : i \in 1..Len(a) } |-> b[CHOOSE i \in 1..Len(a) : a[i] = v]]       \* a[i] -> b[i]
NoLeafWB == [order |-> <<>>, value |-> <<>>, vs |-> <<>>]
WB0 == [vs |-> <<>>, first |-> NoLeafWB, best |-> NoLeafWB, pruned |-> <<>>, inds |-> <<>>, lcp |-> -1, why |-> "", leaves |-> 0, prunes |-> 0]
Cut(f, k) == [i \in 1..Min({k, Len(f)}) |-> f[i]]
SetAt(f, k, S) == [i \in 1..Max({k, Len(f)}) |-> IF i = k THEN S ELSE IF i <= Len(f) THEN f[i] ELSE {}]
GetAt(f, k) == IF k <= Len(f) THEN f[k] ELSE {}
StepWB(G, A, n, x, ev) ==
    IF x.why # "" THEN x
    ELSE IF ev.t = "node" THEN
         (IF ~IsPermS(ev.s, n) THEN [x EXCEPT !.why = "LEAD: order is not a permutation"]
          ELSE IF ev.u = <<>> \/ ev.u[Len(ev.u)] # n THEN [x EXCEPT !.why = "LEAD: cell dividers do not end at n"]
          ELSE IF ~CellSortedOK(ev.s, ev.u) THEN [x EXCEPT !.why = "LEAD: a cell of the partition is not sorted"]
          ELSE IF ev.b = 0 /\ ~EquitableP(G, CellsOf(ev.s, ev.u)) THEN [x EXCEPT !.why = "LEAD: the refined partition is not equitable"]
          ELSE IF \E i \in 1..Len(x.vs) : ~\E k \in 1..Len(ev.u) : CellsOf(ev.s, ev.u)[k] = {x.vs[i]} THEN [x EXCEPT !.why = "LEAD: an individualised vertex is not a singleton cell"]
          ELSE x)
    ELSE IF ev.t = "leaf" THEN
         LET val == CertSeq(G, ev.s, 1)  leaf == [order |-> ev.s, value |-> ev.u, vs |-> x.vs] IN
         IF ~IsPermS(ev.s, n) THEN [x EXCEPT !.why = "LEAD: leaf order is not a permutation"]
         ELSE IF ev.u # val THEN [x EXCEPT !.why = "LEAD: the leaf certificate is not the certificate of its ordering"]
         ELSE IF x.first = NoLeafWB THEN [x EXCEPT !.first = leaf, !.best = leaf, !.lcp = -1, !.leaves = @ + 1]
         ELSE IF SeqCmp(ev.u, x.best.value, 1) = 1 THEN [x EXCEPT !.best = leaf, !.lcp = -1, !.leaves = @ + 1]
         ELSE IF ev.u = x.best.value THEN
              (IF MapLeaf(x.best.order, ev.s) \notin A THEN [x EXCEPT !.why = "LEAD: a leaf with the best certificate does not give an automorphism"]
               ELSE [x EXCEPT !.lcp = Lcp(x.vs, x.best.vs), !.leaves = @ + 1])
         ELSE IF ev.u = x.first.value THEN
              (IF MapLeaf(x.first.order, ev.s) \notin A THEN [x EXCEPT !.why = "LEAD: a leaf with the first leaf's certificate does not give an automorphism"]
               ELSE [x EXCEPT !.lcp = Lcp(x.vs, x.first.vs), !.leaves = @ + 1])
         ELSE [x EXCEPT !.lcp = -1, !.leaves = @ + 1]
    ELSE IF ev.t = "jump" THEN
         (IF x.lcp >= 0 /\ ev.a < x.lcp + 1 THEN [x EXCEPT !.why = "LEAD: back-jump above the common ancestor of the two equivalent leaves"]
          ELSE [x EXCEPT !.vs = Cut(@, ev.a - 1), !.pruned = Cut(@, ev.a), !.inds = Cut(@, ev.a), !.lcp = -1])
    ELSE IF ev.t = "prune" THEN [x EXCEPT !.pruned = SetAt(Cut(@, ev.a + 1), ev.a + 1, GetAt(@, ev.a + 1) \cup {ev.s[1]}), !.prunes = @ + 1]
    ELSE IF ev.t = "ind" THEN [x EXCEPT !.vs = Append(Cut(@, ev.a), ev.s[1]),
                                        !.inds = SetAt(Cut(@, ev.a + 1), ev.a + 1, GetAt(@, ev.a + 1) \cup {ev.s[1]}),
                                        !.pruned = Cut(@, ev.a + 1)]
    ELSE IF ev.t = "close" THEN
         LET nu == Cut(x.vs, ev.a)
             stab == { f \in A : \A i \in 1..Len(nu) : f[nu[i]] = nu[i] }
             lost == { v \in GetAt(x.pruned, ev.a + 1) : ~\E u \in GetAt(x.inds, ev.a + 1) : \E f \in stab : f[u] = v } IN
         IF lost # {} THEN [x EXCEPT !.why = "LEAD: a vertex was skipped by orbit pruning although no explored sibling lies in its orbit under the stabiliser of the node"]
         ELSE [x EXCEPT !.vs = nu, !.pruned = Cut(@, ev.a), !.inds = Cut(@, ev.a)]
    ELSE x
RECURSIVE RunWB(_, _, _, _, _, _)
RunWB(G, A, n, x, evs, i) == IF i > Len(evs) THEN x ELSE RunWB(G, A, n, StepWB(G, A, n, x, evs[i]), evs, i + 1)
(* Aut(G): by brute force for small graphs; for the larger structured graphs of the harness (disjoint unions of cycles and their      *)
(* complements) generated from the automorphisms known by construction, and accepted only if the group has the order the construction  *)
(* predicts (e.order) and every generator is an automorphism.                                                                          *)
KnownGens(e) == { FnOfSeq(e.known[k]) : k \in 1..Len(e.known) }
JudgeWB(e) ==
    LET G == RelabelS(GofJ(e.g), e.pi)  n == G.n
        A == IF Len(e.known) = 0 THEN AutF(G, <<>>) ELSE ClosureFr({ [x \in Verts(n) |-> x] }, { [x \in Verts(n) |-> x] }, KnownGens(e)) IN
    IF e.res # "ok" THEN e.res
    ELSE IF Len(e.known) > 0 /\ (\E f \in KnownGens(e) : ~IsAutF(G, f, <<>>)) THEN "HARNESS: a 'known' automorphism is not one"
    ELSE IF Len(e.known) > 0 /\ Cardinality(A) # e.order THEN "HARNESS: the known automorphisms do not generate a group of the predicted order"
    ELSE IF n = 0 \/ G.E = {} THEN ""
    ELSE LET x == RunWB(G, A, n, WB0, e.evs, 1) IN
         IF x.why # "" THEN x.why
         ELSE IF x.best = NoLeafWB THEN "LEAD: the search visited no leaf"
         ELSE IF e.perm # x.best.order THEN "LEAD: the returned permutation is not the ordering of the best leaf"
         ELSE ""

TInit == l = 1 /\ bad = <<>> /\ st = [segs |-> 0, sums |-> 0, relabellings |-> 0, fulls |-> 0, bfauts |-> 0, reused |-> 0, nontrivial |-> 0, wb |-> 0, wbevents |-> 0]
Flag(why) == bad' = IF why = "" THEN bad ELSE Note(bad, [seg |-> Ev.seg, l |-> l, why |-> why \o " [" \o Ev.ev \o "]"])
TStep ==
    /\ l <= NEvents /\ l' = l + 1
    /\ IF Ev.ev = "Reset" THEN bad' = bad /\ st' = [st EXCEPT !.segs = @ + 1]
       ELSE IF Ev.ev = "CanonSum"
       THEN /\ Flag(JudgeSum(Ev))
            /\ st' = [st EXCEPT !.sums = @ + 1, !.relabellings = @ + Ev.tried, !.nontrivial = @ + (IF Ev.nt THEN 1 ELSE 0)]
       ELSE IF Ev.ev = "CanonWB"
       THEN /\ Flag(JudgeWB(Ev))
            /\ st' = [st EXCEPT !.wb = @ + 1, !.wbevents = @ + Len(Ev.evs)]
       ELSE /\ Flag(JudgeFull(Ev))
            /\ st' = [st EXCEPT !.fulls = @ + 1, !.bfauts = @ + (IF Ev.bf THEN 1 ELSE 0), !.reused = @ + (IF Ev.reused THEN 1 ELSE 0),
                                !.nontrivial = @ + (IF Len(Ev.gens) > 0 THEN 1 ELSE 0)]
Report == ReportLine(l, [bad |-> bad, st |-> st, events |-> NEvents])
=============================================================================
