---------------------------- MODULE GraphCodecsMC ---------------------------
(* Self-consistency of the format definitions (the oracle round-trips on     *)
(* itself before it is trusted): graph6 for all graphs n <= 4, sparse6       *)
(* through a spec-side writer, Pruefer bijection n <= 5, header boundaries.  *)
EXTENDS GraphCodecs
VARIABLE x
Init == x = 0
Next == x < 1 /\ x' = x + 1
Small == UNION { AllGraphs(n) : n \in 0..4 }
ASSUME \A G \in Small : LET d == G6Decode(G6Encode(G)) IN d.ok /\ d.G = G
ASSUME \A n \in {0, 1, 2, 62, 63, 64, 4095, 4096, 258047, 258048, 1000000} :
          LET h == ReadN(NBytes(n), 1) IN h.ok /\ h.next = Len(NBytes(n)) + 1 /\ (h.big \/ h.n = n) /\ (h.big <=> n >= 262144)
ASSUME Len(NBytes(62)) = 1 /\ Len(NBytes(63)) = 4 /\ Len(NBytes(258047)) = 4 /\ Len(NBytes(258048)) = 8
(* a straightforward sparse6 writer (pairs in increasing v, 1-padding) to exercise the reader *)
RECURSIVE S6Pairs(_, _, _, _)
S6Pairs(G, k, v, cur) ==     \* edges {x, v} with x < v, vertex by vertex; cur = current v of the reader
    IF v >= G.n THEN <<>>
    ELSE LET xs == SortedSeq({ u \in Nbrs(G, v) : u < v }) IN
         IF xs = <<>> THEN S6Pairs(G, k, v + 1, cur)
         ELSE LET move == IF v = cur THEN <<>> ELSE IF v = cur + 1 THEN <<>> ELSE <<1>> \o BitsOf(v, k)
                  first == IF v = cur + 1 THEN <<1>> ELSE <<0>>
                  rest == [i \in 1..(Len(xs) - 1) |-> <<0>> \o BitsOf(xs[i + 1], k)] IN
              move \o first \o BitsOf(xs[1], k) \o FoldLeft(LAMBDA a, b : a \o b, <<>>, rest) \o S6Pairs(G, k, v + 1, v)
(* padding with 1-bits; special case of the definition: n in {2,4,8,16}, vertex n-2 has an edge, n-1 has none and k+1 or more bits *)
(* are to be added: one 0-bit, then 1-bits (otherwise the padding would read as the pair (1, n-1), a loop at n-1)                  *)
NeedsSpecialPad(G) == G.n \in {2, 4, 8, 16} /\ Deg(G, G.n - 1) = 0 /\ Deg(G, G.n - 2) > 0
S6Padded(G) == LET bits == S6Pairs(G, S6K(G.n), 0, 0)
                   pad == (6 - (Len(bits) % 6)) % 6 IN
               IF NeedsSpecialPad(G) /\ pad >= S6K(G.n) + 1 THEN PadTo6(bits \o <<0>>, 1) ELSE PadTo6(bits, 1)
S6Write(G) == <<58>> \o NBytes(G.n) \o RBytes(S6Padded(G))
ASSUME \A G \in Small : LET d == S6Decode(S6Write(G)) IN d.ok /\ d.G = G /\ ~d.loop
(* without the special case the exact-fit padding does read back as a loop: the path 0-2-1 with vertex 3 isolated *)
ASSUME LET G == MkGraph(4, {{0, 2}, {1, 2}}) IN S6Decode(<<58>> \o NBytes(4) \o RBytes(PadTo6(S6Pairs(G, 2, 0, 0), 1))).loop
Codes(n) == [1..(n - 2) -> 0..(n - 1)]
ASSUME \A n \in 2..5 : \A p \in Codes(n) : IsTree(PruferDecode(p)) /\ PruferEncode(PruferDecode(p)) = p
ASSUME \A n \in 2..5 : Cardinality({ PruferDecode(p) : p \in Codes(n) }) = Cardinality(Codes(n))
ASSUME \A n \in 2..4 : \A G \in AllGraphs(n) : IsTree(G) => PruferDecode(PruferEncode(G)) = G
=============================================================================
