------------------------------ MODULE CodecTrace ----------------------------
(***************************************************************************)
(* C06 / C07 / C08, code -> spec.  Monitor-style acceptor for              *)
(*   Construct : a constructor / generator / transformation call with the   *)
(*               full observation of its result, and a second observation   *)
(*               taken after the caller's input slices were overwritten;    *)
(*   ViewOp    : an edit of a base graph followed by observations of live   *)
(*               views (complement, induced subgraph) of it;                *)
(*   Codec     : encode + decode of a graph in one of the formats;          *)
(*   Decode    : Graph6Decode / Sparse6Decode of an arbitrary byte string.  *)
(* Oracles: Families.tla (definitions), GraphCodecs.tla (format readers and *)
(* writers), Graphs.tla (well-formedness of an observation).                *)
(***************************************************************************)
EXTENDS Families, GraphCodecs, TraceLib

VARIABLES l, bad, st, base, dead     \* base: the graph under a live view (ViewOp segments); dead: segment already reported
Ev == Trace[l]
SeqRange(s) == { s[i] : i \in 1..Len(s) }
GofJ(g) == GraphOfRankSet(g.n, SeqRange(g.e))           \* {n, e: edge ranks} -> graph
Crashed(res) == Len(res) >= 6 /\ SubSeq(res, 1, 6) = "crash:"
RefusedR(res) == Len(res) >= 7 /\ SubSeq(res, 1, 7) = "refuse:"

(* an observation (full for small n, lite above) against an expected graph; "" if fine *)
ObsVs(o, G) ==
    IF o.kind = "full" THEN (IF ObsMatches(o, G) THEN "" ELSE "result " \o ObsWhy(o, G))
    ELSE IF o.n # G.n THEN "result n"
    ELSE IF LiteWhy(o) # "ok" THEN "result not well formed: " \o LiteWhy(o)
    ELSE IF RankSetOfLite(o) # RankSetOf(G) THEN "result edges"
    ELSE ""
ObsWF(o) == IF o.kind = "full" THEN (IF WellFormedObs(o) THEN "" ELSE "result not well formed: " \o ObsWhy(o, GraphOfObs(o)))
            ELSE (IF LiteWhy(o) = "ok" THEN "" ELSE "result not well formed: " \o LiteWhy(o))
GraphOfAnyObs(o) == IF o.kind = "full" THEN GraphOfObs(o) ELSE GraphOfRankSet(o.n, RankSetOfLite(o))

NoDef == [n |-> -1, E |-> {}]
(* the documented domain of each constructor: a refusal (the constructor's own panic) is accepted only outside it *)
InDomain(e) ==
    LET p == e.p IN
    CASE e.fam = "FlowerSnark" -> p[1] % 2 = 1 /\ p[1] >= 1
      [] e.fam = "Hypercube" -> p[1] >= 0
      [] e.fam = "FoldedHypercube" -> p[1] >= 1
      [] e.fam = "GeneralisedPetersen" -> p[1] >= 3 /\ p[2] >= 1 /\ p[2] <= (p[1] - 1) \div 2
      [] e.fam = "Cycle" -> p[1] >= 3
      [] e.fam = "RandomTree" -> p[1] >= 1
      [] e.fam \in {"Kneser", "BipartiteKneser"} -> p[1] >= 0 /\ p[2] >= 0
      [] e.fam = "SplitEdge" -> p[1] # p[2]
      [] e.fam = "NewDense" -> Len(e.m) = (p[1] * (p[1] - 1)) \div 2
      [] OTHER -> TRUE
(* the graph the definition prescribes, NoDef where only well-formedness is claimed *)
Def(e) ==
    LET p == e.p  m == e.m IN
    CASE e.fam = "Complete" -> Complete(p[1])
      [] e.fam = "CompletePartite" -> CompletePartite(m)
      [] e.fam = "Path" -> PathG(p[1])
      [] e.fam = "Cycle" -> IF p[1] >= 3 THEN CycleG(p[1]) ELSE NoDef
      [] e.fam = "Star" -> StarG(p[1])
      [] e.fam = "Friendship" -> Friendship(p[1])
      [] e.fam = "Hypercube" -> Hypercube(p[1])
      [] e.fam = "FoldedHypercube" -> FoldedHypercube(p[1])
      [] e.fam = "FlowerSnark" -> IF p[1] >= 3 THEN FlowerSnark(p[1]) ELSE NoDef
      [] e.fam = "Rook" -> NoDef                                   \* vertex order undocumented: judged up to isomorphism below
      [] e.fam = "Kneser" -> Kneser(p[1], p[2])
      [] e.fam = "BipartiteKneser" -> BipartiteKneser(p[1], p[2])
      [] e.fam = "Circulant" -> Circulant(p[1], m)
      [] e.fam = "CirculantBipartite" -> CirculantBipartite(p[1], p[2], m)
      [] e.fam = "GeneralisedPetersen" -> IF InDomain(e) THEN GeneralisedPetersen(p[1], p[2]) ELSE NoDef
      [] e.fam = "NewDense" -> GraphOfRankSet(p[1], { r \in 0..(Len(m) - 1) : m[r + 1] > 0 })
      [] e.fam = "NewDenseNil" -> Empty(p[1])
      [] e.fam \in {"NewSparse", "PruferDecodeOf", "MulticodeDecodeOf", "Graph6DecodeOf", "Sparse6DecodeOf"} -> GofJ(e.g)
      [] e.fam = "Sparse6DecodeShuffled" -> IF S6Decode(m).ok /\ S6Decode(m).G = GofJ(e.g) THEN GofJ(e.g) ELSE [n |-> -2, E |-> {}]   \* -2: the harness wrote a wrong string
      [] e.fam = "NewSparseNil" -> Empty(p[1])
      [] e.fam = "RandomGraph" -> IF p[2] = 0 THEN Empty(p[1]) ELSE IF p[2] = 100 THEN Complete(p[1]) ELSE NoDef
      [] e.fam = "RandomTree" -> NoDef
      [] e.fam \in {"ComplementDense", "ComplementView"} -> ComplementG(GofJ(e.g))
      [] e.fam = "InducedView" -> Induced(GofJ(e.g), m)
      [] e.fam = "LineGraphDense" -> NoDef
      [] e.fam = "SplitEdge" -> SplitEdge(GofJ(e.g), p[1], p[2])
      [] e.fam = "Contract" -> Contract(GofJ(e.g), p[1], p[2])
      [] e.fam = "ContractSplit" -> SplitEdge(Contract(GofJ(e.g), p[1], p[2]), p[3], p[4])
      [] e.fam = "SplitContract" -> Contract(SplitEdge(GofJ(e.g), p[1], p[2]), p[3], p[4])

JudgeConstruct(e) ==
    IF Crashed(e.res) \/ e.res = "timeout" THEN e.res
    ELSE IF RefusedR(e.res) THEN (IF InDomain(e) THEN "refused although the parameters are in the documented domain: " \o e.res ELSE "")
    ELSE LET wf == ObsWF(e.obs)  d == Def(e) IN
         IF wf # "" THEN wf
         ELSE IF d # NoDef /\ ObsVs(e.obs, d) # "" THEN ObsVs(e.obs, d) \o " (differs from the definition)"
         ELSE IF e.obs2 # e.obs THEN "the graph changed when the caller's input was modified / a second identical call differs"
         ELSE IF e.fam = "RandomTree" /\ e.p[1] >= 1 /\ ~IsTree(GraphOfAnyObs(e.obs)) THEN "RandomTree did not return a tree"
         ELSE IF e.fam = "LineGraphDense" /\ GraphOfAnyObs(e.obs) # LineGraph(GofJ(e.g))
                 /\ (NumEdges(GofJ(e.g)) > 6 \/ ~IsIso(GraphOfAnyObs(e.obs), LineGraph(GofJ(e.g)))) THEN "not the line graph"
         ELSE IF e.fam = "Rook" /\ GraphOfAnyObs(e.obs) # Rook(e.p[1], e.p[2])
                 /\ (e.p[1] * e.p[2] > 6 \/ ~IsIso(GraphOfAnyObs(e.obs), Rook(e.p[1], e.p[2]))) THEN "not the rook graph"
         ELSE ""

(* ---- live views ---- *)
ApplyEdit(G, a) ==
    CASE a.op = "Create"       -> GraphOfRankSet(a.n, SeqRange(a.e))
      [] a.op = "AddVertex"    -> AddVertex(G, SeqRange(a.nb))
      [] a.op = "RemoveVertex" -> RemoveVertex(G, a.v)
      [] a.op = "AddEdge"      -> AddEdge(G, a.i, a.j)
      [] a.op = "RemoveEdge"   -> RemoveEdge(G, a.i, a.j)
JudgeView(G, e) ==
    IF e.res # "ok" THEN e.res
    ELSE LET wrong == { k \in 1..Len(e.views) :
                          LET v == e.views[k]
                              want == IF v.kind = "complement" THEN ComplementG(G) ELSE IF v.kind = "cc" THEN G ELSE Induced(G, v.V) IN
                          v.res # "ok" \/ ObsVs(v.o, want) # "" } IN
         IF wrong = {} THEN "" ELSE "live view " \o e.views[Min(wrong)].kind \o " does not reflect the underlying graph"

(* ---- codecs ---- *)
DecWhy(d, G, what) == IF d.res # "ok" THEN what \o ": " \o d.res
                      ELSE IF d.err THEN what \o ": the decoder rejects the encoder's output"
                      ELSE IF ObsVs(d.obs, G) # "" THEN what \o ": " \o ObsVs(d.obs, G) ELSE ""
(* graphs with thousands of vertices and a few edges: size header, total length, and the decoded graph at the listed pairs *)
PairSet(ps) == { {ps[i][1], ps[i][2]} : i \in 1..Len(ps) }
JudgeHuge(e) ==
    LET n == e.n
        nb == NBytes(n)
        h == IF e.codec = "g6huge" THEN nb ELSE <<58>> \o nb
        E == PairSet(e.pairs) IN
    IF e.res # "ok" THEN e.res
    ELSE IF Len(e.hdr) < Len(h) \/ SubSeq(e.hdr, 1, Len(h)) # h THEN "the size header differs from the format definition"
    ELSE IF e.codec = "g6huge" /\ e.len # Len(nb) + ((n * (n - 1)) \div 2 + 5) \div 6 THEN "graph6 string has the wrong length for its size"
    ELSE IF e.codec = "s6huge" /\ (~InRange(SubSeq(e.enc, 2, Len(e.enc))) \/ ~S6HeaderOK(e.enc, n)) THEN "sparse6 bytes / size header differ from the format definition"
    ELSE IF e.codec = "s6huge" /\ LET d == S6Decode(e.enc) IN ~d.ok \/ d.G.E # E \/ d.loop THEN "the format definition's reader does not recover the graph from the sparse6 string"
    ELSE IF e.derr THEN "the decoder rejects the encoder's output"
    ELSE IF e.dn # n THEN "the decoded graph has a different number of vertices"
    ELSE IF e.dm # Cardinality(E) THEN "the decoded graph has a different number of edges"
    ELSE IF \E i \in 1..Len(e.at) : ~e.at[i] THEN "the decoded graph misses an edge"
    ELSE IF \E i \in 1..Len(e.off) : e.off[i] # ({e.probes[i][1], e.probes[i][2]} \in E) THEN "the decoded graph has an edge that was not encoded"
    ELSE ""
JudgeCodec(e) ==
    IF e.codec \in {"g6huge", "s6huge"} THEN JudgeHuge(e)
    ELSE IF e.codec = "mcmulti" THEN
         IF e.res # "ok" THEN e.res
         ELSE IF Len(e.decs) # Len(e.gs) THEN "MulticodeDecodeMultiple returned the wrong number of graphs"
         ELSE IF \E k \in 1..Len(e.gs) : ObsVs(e.decs[k], GofJ(e.gs[k])) # "" THEN "MulticodeDecodeMultiple: graph differs"
         ELSE ""
    ELSE IF e.codec = "pruferdec" THEN        \* code -> tree -> code
         IF e.res # "ok" THEN e.res
         ELSE IF ObsVs(e.obs, PruferDecode(e.code)) # "" THEN "PruferDecode: " \o ObsVs(e.obs, PruferDecode(e.code))
         ELSE IF e.code2 # e.code THEN "PruferEncode(PruferDecode(code)) is not the code"
         ELSE ""
    ELSE LET G == GofJ(e.g) IN
         IF e.encres # "ok" THEN "encode: " \o e.encres
         ELSE IF e.codec = "prufer" THEN
              (IF e.code # PruferEncode(G) THEN "PruferEncode differs from the definition" ELSE DecWhy(e.dec, G, "PruferDecode(PruferEncode(t))"))
         ELSE IF e.codec = "mc" THEN
              (IF e.enc # McEncode(G) THEN "Multicode bytes differ from the format"
               ELSE IF e.adj # AdjMatEncode(G) THEN "AdjacencyMatrixEncode differs from the documented layout"
               ELSE DecWhy(e.dec, G, "MulticodeDecode"))
         ELSE IF e.codec = "g6" THEN
              (IF ~InRange(e.enc) THEN "graph6 uses a byte outside 63..126"
               ELSE IF e.enc # G6Encode(G) THEN "graph6 string differs from the format definition"
               ELSE IF DecWhy(e.dec, G, "Graph6Decode") # "" THEN DecWhy(e.dec, G, "Graph6Decode")
               ELSE DecWhy(e.dech, G, "Graph6Decode with header"))
         ELSE (IF Len(e.enc) < 2 \/ e.enc[1] # 58 \/ ~InRange(SubSeq(e.enc, 2, Len(e.enc))) THEN "sparse6 uses a byte the format does not allow"
               ELSE IF ~S6HeaderOK(e.enc, G.n) THEN "sparse6 size header differs from the format definition"
               ELSE IF ~S6Decode(e.enc).ok \/ S6Decode(e.enc).G # G THEN "the format definition's reader does not recover the graph from the sparse6 string"
               ELSE IF S6Decode(e.enc).loop THEN "the format definition's reader finds a loop in the sparse6 string of a simple graph (the padding reads as a pair {n-1, n-1}: special case n = 2, 4, 8, 16 of the definition)"
               ELSE IF DecWhy(e.dec, G, "Sparse6Decode") # "" THEN DecWhy(e.dec, G, "Sparse6Decode")
               ELSE DecWhy(e.dech, G, "Sparse6Decode with header"))

(* ---- C08: arbitrary strings ---- *)
HdrG6 == <<62, 62, 103, 114, 97, 112, 104, 54, 60, 60>>                 \* ">>graph6<<"
HdrS6 == <<62, 62, 115, 112, 97, 114, 115, 101, 54, 60, 60>>            \* ">>sparse6<<"
StripHdr(b, h) == IF Len(b) >= Len(h) /\ SubSeq(b, 1, Len(h)) = h THEN SubSeq(b, Len(h) + 1, Len(b)) ELSE b
(* the vertex count a string declares: [def, n, big]; def = FALSE when the header is truncated or malformed *)
Declared(dec, bytes) ==
    LET b == StripHdr(bytes, IF dec = "g6" THEN HdrG6 ELSE HdrS6)
        body == IF dec = "g6" THEN b ELSE IF Len(b) >= 1 /\ b[1] = 58 THEN SubSeq(b, 2, Len(b)) ELSE <<0>> IN
    IF dec = "g6" /\ b = <<>> THEN [def |-> TRUE, n |-> 0, big |-> FALSE]
    ELSE IF ~InRange(body) THEN [def |-> FALSE, n |-> 0, big |-> FALSE]
    ELSE LET h == ReadN(body, 1) IN [def |-> h.ok, n |-> h.n, big |-> h.big]
JudgeDecode(e) ==
    LET d == Declared(e.dec, e.bytes) IN
    IF e.out = "skip" THEN (IF d.def /\ (d.big \/ d.n > 4096) THEN "" ELSE "HARNESS: skipped a string whose declared n is within the bound")
    ELSE IF d.def /\ (d.big \/ d.n > 4096) THEN "HARNESS: executed a string beyond the resource bound"
    ELSE IF e.out \in {"crash", "timeout"} THEN "decoder " \o e.out \o ": " \o e.res
    ELSE IF e.out = "err" THEN ""
    ELSE IF ~d.def THEN "decoder returned a graph although the string declares no vertex count"
    ELSE IF e.obs.n # d.n THEN "decoder returned a graph on a different number of vertices than declared"
    ELSE IF ObsWF(e.obs) # "" THEN ObsWF(e.obs)
    ELSE IF ~e.rt_same THEN "re-encoding the result and decoding again gives a different graph"
    ELSE ""

TInit == l = 1 /\ bad = <<>> /\ base = Empty(0) /\ dead = FALSE
         /\ st = [segs |-> 0, constructs |-> 0, refused |-> 0, defined |-> 0, views |-> 0, codecs |-> 0, decodes |-> 0,
                  graphs |-> 0, errs |-> 0, skipped |-> 0, nontrivial |-> 0]
Flag(why) == /\ bad' = IF why = "" THEN bad ELSE Note(bad, [seg |-> Ev.seg, l |-> l, why |-> why \o " [" \o Ev.ev \o "]"])
             /\ dead' = (why # "")
TStep ==
    /\ l <= NEvents /\ l' = l + 1
    /\ IF Ev.ev = "Reset" THEN bad' = bad /\ base' = Empty(0) /\ dead' = FALSE /\ st' = [st EXCEPT !.segs = @ + 1]
       ELSE IF dead THEN UNCHANGED <<bad, st, base, dead>>
       ELSE IF Ev.ev = "Construct"
       THEN /\ Flag(JudgeConstruct(Ev)) /\ UNCHANGED base
            /\ st' = [st EXCEPT !.constructs = @ + 1, !.refused = @ + (IF RefusedR(Ev.res) THEN 1 ELSE 0),
                                !.defined = @ + (IF Ev.res = "ok" /\ Def(Ev) # NoDef THEN 1 ELSE 0),
                                !.nontrivial = @ + (IF Ev.res = "ok" /\ Ev.obs.n >= 2 /\ Ev.obs.m >= 1 THEN 1 ELSE 0)]
       ELSE IF Ev.ev = "ViewOp"
       THEN LET G2 == ApplyEdit(base, Ev.a) IN
            /\ base' = G2 /\ Flag(JudgeView(G2, Ev)) /\ st' = [st EXCEPT !.views = @ + Len(Ev.views)]
       ELSE IF Ev.ev = "Codec"
       THEN /\ Flag(JudgeCodec(Ev)) /\ UNCHANGED base
            /\ st' = [st EXCEPT !.codecs = @ + 1, !.nontrivial = @ + (IF Ev.nt THEN 1 ELSE 0)]
       ELSE /\ Flag(JudgeDecode(Ev)) /\ UNCHANGED base
            /\ st' = [st EXCEPT !.decodes = @ + 1, !.graphs = @ + (IF Ev.out = "graph" THEN 1 ELSE 0),
                                !.errs = @ + (IF Ev.out = "err" THEN 1 ELSE 0), !.skipped = @ + (IF Ev.out = "skip" THEN 1 ELSE 0),
                                !.nontrivial = @ + (IF Ev.out # "skip" /\ Declared(Ev.dec, Ev.bytes).def THEN 1 ELSE 0)]
Report == ReportLine(l, [bad |-> bad, st |-> st, events |-> NEvents])
=============================================================================
