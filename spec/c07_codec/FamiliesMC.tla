------------------------------ MODULE FamiliesMC -----------------------------
(* The definitions against their classical invariants on the parameter grid. *)
EXTENDS Families
VARIABLE x
Init == x = 0
Next == x < 1 /\ x' = x + 1
RECURSIVE Binom(_, _)
Binom(n, k) == IF k < 0 \/ k > n THEN 0 ELSE IF k = 0 THEN 1 ELSE (Binom(n - 1, k - 1) * n) \div k
Regular(G, d) == \A v \in Verts(G.n) : Deg(G, v) = d
ASSUME \A n \in 0..7 : NumEdges(Complete(n)) = (n * (n - 1)) \div 2
ASSUME \A n \in 1..7 : NumEdges(PathG(n)) = n - 1 /\ NumEdges(StarG(n)) = n - 1
ASSUME \A n \in 3..8 : NumEdges(CycleG(n)) = n /\ Regular(CycleG(n), 2)
ASSUME \A d \in 0..4 : Regular(Hypercube(d), d) /\ Hypercube(d).n = Pow2(d)
ASSUME \A d \in 3..5 : Regular(FoldedHypercube(d), d)
ASSUME \A n \in {3, 5} : Regular(FlowerSnark(n), 3) /\ NumEdges(FlowerSnark(n)) = 6 * n
ASSUME \A n \in 0..6, k \in 0..6 : Kneser(n, k).n = Binom(n, k) /\ (k >= 1 => Regular(Kneser(n, k), Binom(n - k, k)))
ASSUME \A n \in 1..5, k \in 0..5 : 2 * k < n => Regular(BipartiteKneser(n, k), Binom(n - k, n - 2 * k))
ASSUME \A n \in 0..4 : NumEdges(Friendship(n)) = 3 * n
ASSUME \A n \in 3..6, k \in 1..2 : k <= (n - 1) \div 2 => Regular(GeneralisedPetersen(n, k), 3)
ASSUME \A a \in 1..3, b \in 1..3 : Regular(Rook(a, b), a + b - 2) /\ Rook(a, b).n = a * b
ASSUME \A a \in 0..3, b \in 0..3, c \in 0..2 : NumEdges(CompletePartite(<<a, b, c>>)) = a * b + a * c + b * c
ASSUME NumEdges(Circulant(5, <<1>>)) = 5 /\ NumEdges(Circulant(6, <<3>>)) = 3 /\ NumEdges(Circulant(6, <<-1, 7, 6>>)) = 6
=============================================================================
