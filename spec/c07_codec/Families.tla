------------------------------- MODULE Families ------------------------------
(***************************************************************************)
(* C06.  Every named graph family and transformation of the graph package   *)
(* as a set expression, from the doc comments / the classical definitions.  *)
(* Vertex numbering follows the documentation where it fixes one.           *)
(***************************************************************************)
EXTENDS Graphs

E2(P)           == { e \in P : Cardinality(e) = 2 }       \* drop degenerate pairs {v,v}
Complete(n)     == MkGraph(n, AllPairs(n))
(* parts are consecutive blocks of sizes nums[1], nums[2], ... *)
PartOf(nums, v) == CHOOSE k \in 1..Len(nums) : LET lo == FoldLeft(LAMBDA a, b : a + b, 0, SubSeq(nums, 1, k - 1)) IN lo <= v /\ v < lo + nums[k]
CompletePartite(nums) == LET n == FoldLeft(LAMBDA a, b : a + b, 0, nums) IN
                         MkGraph(n, { e \in AllPairs(n) : PartOf(nums, Min(e)) # PartOf(nums, Max(e)) })
PathG(n)        == MkGraph(n, { {i, i + 1} : i \in 0..(n - 2) })
CycleG(n)       == MkGraph(n, { {i, i + 1} : i \in 0..(n - 2) } \cup { {0, n - 1} })        \* n >= 3
StarG(n)        == MkGraph(n, { {0, i} : i \in 1..(n - 1) })
Friendship(n)   == MkGraph(2 * n + 1, UNION { { {2*i + 1, 2*i + 2}, {0, 2*i + 1}, {0, 2*i + 2} } : i \in 0..(n - 1) })
(* x and y differ in exactly one binary digit *)
RECURSIVE PopCount(_)
PopCount(x)     == IF x = 0 THEN 0 ELSE (x % 2) + PopCount(x \div 2)
RECURSIVE Xor(_, _)
Xor(x, y)       == IF x = 0 /\ y = 0 THEN 0 ELSE (((x % 2) + (y % 2)) % 2) + 2 * Xor(x \div 2, y \div 2)
RECURSIVE Pow2(_)
Pow2(k)         == IF k <= 0 THEN 1 ELSE 2 * Pow2(k - 1)
Hypercube(d)    == MkGraph(Pow2(d), { e \in AllPairs(Pow2(d)) : PopCount(Xor(Min(e), Max(e))) = 1 })
(* the (d-1)-cube with every vertex also joined to its antipode *)
FoldedHypercube(d) == LET n == Pow2(d - 1) IN
                      MkGraph(n, { e \in AllPairs(n) : PopCount(Xor(Min(e), Max(e))) = 1 \/ Xor(Min(e), Max(e)) = n - 1 })
(* flower snark J_n, n odd >= 3: stars a_i-{b_i,c_i,d_i}, the cycle b_0..b_{n-1}, the 2n-cycle c_0..c_{n-1} d_0..d_{n-1} *)
FlowerSnark(n)  == LET a(i) == 4*i  b(i) == 4*i + 1  c(i) == 4*i + 2  d(i) == 4*i + 3 IN
                   MkGraph(4 * n, UNION { { {a(i), b(i)}, {a(i), c(i)}, {a(i), d(i)} } : i \in 0..(n - 1) }
                                  \cup { {b(i), b((i + 1) % n)} : i \in 0..(n - 1) }
                                  \cup { {c(i), c(i + 1)} : i \in 0..(n - 2) } \cup { {d(i), d(i + 1)} : i \in 0..(n - 2) }
                                  \cup { {c(n - 1), d(0)}, {d(n - 1), c(0)} })
(* k-subsets of 0..n-1 in colexicographic order *)
KSubsets(n, k)  == { S \in SUBSET (0..(n - 1)) : Cardinality(S) = k }
ColexLessSet(A, B) == A # B /\ Max((A \ B) \cup (B \ A)) \in B
ColexSeq(n, k)  == SetToSortSeq(KSubsets(n, k), ColexLessSet)
Kneser(n, k)    == LET V == ColexSeq(n, k) IN
                   MkGraph(Len(V), { e \in AllPairs(Len(V)) : V[Min(e) + 1] \cap V[Max(e) + 1] = {} })
(* k-sets first, then (n-k)-sets, both in colex order; joined iff one contains the other *)
BipartiteKneser(n, k) == LET A == ColexSeq(n, k)  B == ColexSeq(n, n - k)  N == Len(A) IN
                   MkGraph(2 * N, { e \in AllPairs(2 * N) : Min(e) < N /\ Max(e) >= N /\
                                      LET S == A[Min(e) + 1]  T == B[Max(e) - N + 1] IN S \subseteq T \/ T \subseteq S })
Mod(a, n)       == ((a % n) + n) % n
Circulant(n, diffs) == MkGraph(n, E2({ {i, Mod(i + diffs[k], n)} : i \in 0..(n - 1), k \in 1..Len(diffs) }))
CirculantBipartite(n, m, diffs) == MkGraph(n + m, { {i, n + Mod(i + diffs[k], m)} : i \in 0..(n - 1), k \in 1..Len(diffs) })
GeneralisedPetersen(n, k) == MkGraph(2 * n, E2({ {i, (i + 1) % n} : i \in 0..(n - 1) } \cup { {i, n + i} : i \in 0..(n - 1) }
                                              \cup { {n + i, n + ((i + k) % n)} : i \in 0..(n - 1) }))
(* line graph with the edges of G numbered in the order 01,02,12,03,... *)
LineGraph(G)    == LET Es == SetToSortSeq(G.E, LAMBDA a, b : EdgeRank(a) < EdgeRank(b)) IN
                   MkGraph(Len(Es), { e \in AllPairs(Len(Es)) : Es[Min(e) + 1] \cap Es[Max(e) + 1] # {} })
Rook(n, m)      == LineGraph(CompletePartite(<<n, m>>))
=============================================================================
