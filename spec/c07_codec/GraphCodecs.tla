----------------------------- MODULE GraphCodecs ----------------------------
(***************************************************************************)
(* C07 / C08.  The text and byte formats as executable definitions, written *)
(* from the published format description (formats.txt of nauty) and the     *)
(* classical definitions, independently of the implementation:              *)
(*   graph6  : N(n) R(x), x = upper triangle column by column               *)
(*   sparse6 : ':' N(n) R(x), x = b[0] x[0] b[1] x[1] ... with k-bit x[i],  *)
(*             read by the little machine (v, position) of the description  *)
(*   Multicode: n, then for every vertex but the last its larger            *)
(*             neighbours (1-based) followed by 0                           *)
(*   Pruefer : leaf-stripping code of a labelled tree and its inverse       *)
(* Byte strings are sequences of integers 0..255.                           *)
(***************************************************************************)
EXTENDS Graphs

(* ---- bit vectors ---- *)
RECURSIVE BitsOf(_, _)                 \* x as k bits, most significant first
BitsOf(x, k) == IF k = 0 THEN <<>> ELSE BitsOf(x \div 2, k - 1) \o <<x % 2>>
RECURSIVE ValOf(_)                     \* big-endian value of a bit sequence
ValOf(b) == IF b = <<>> THEN 0 ELSE 2 * ValOf(SubSeq(b, 1, Len(b) - 1)) + b[Len(b)]
PadTo6(b, fill) == b \o [i \in 1..((6 - (Len(b) % 6)) % 6) |-> fill]
(* R(x): pad with zeros to a multiple of 6, groups of 6 bits as bytes + 63 *)
RBytes(b) == [g \in 1..(Len(b) \div 6) |-> 63 + ValOf(SubSeq(b, 6 * g - 5, 6 * g))]
R(b) == RBytes(PadTo6(b, 0))
UnR(bytes) == LET f[i \in 0..Len(bytes)] == IF i = 0 THEN <<>> ELSE f[i-1] \o BitsOf(bytes[i] - 63, 6) IN f[Len(bytes)]
(* N(n) for n < 2^30 (TLC integers); the 36-bit form is used above 258047 *)
NBytes(n) == IF n <= 62 THEN <<n + 63>>
             ELSE IF n <= 258047 THEN <<126>> \o RBytes(BitsOf(n, 18))
             ELSE <<126, 126>> \o RBytes(BitsOf(n, 36))
InRange(bytes) == \A i \in 1..Len(bytes) : bytes[i] >= 63 /\ bytes[i] <= 126
(* header reader: [ok, n, next, big]; big = the declared n is at least 2^18 (not evaluated further) *)
ReadN(bytes, pos) ==
    IF pos > Len(bytes) THEN [ok |-> FALSE, n |-> 0, next |-> pos, big |-> FALSE]
    ELSE IF bytes[pos] # 126 THEN [ok |-> TRUE, n |-> bytes[pos] - 63, next |-> pos + 1, big |-> FALSE]
    ELSE IF pos + 1 <= Len(bytes) /\ bytes[pos + 1] # 126
         THEN (IF pos + 3 > Len(bytes) THEN [ok |-> FALSE, n |-> 0, next |-> pos, big |-> FALSE]
               ELSE [ok |-> TRUE, n |-> ValOf(UnR(SubSeq(bytes, pos + 1, pos + 3))), next |-> pos + 4, big |-> FALSE])
    ELSE IF pos + 7 > Len(bytes) THEN [ok |-> FALSE, n |-> 0, next |-> pos, big |-> FALSE]
    ELSE IF ValOf(UnR(SubSeq(bytes, pos + 2, pos + 4))) # 0 THEN [ok |-> TRUE, n |-> 262144, next |-> pos + 8, big |-> TRUE]
    ELSE [ok |-> TRUE, n |-> ValOf(UnR(SubSeq(bytes, pos + 5, pos + 7))), next |-> pos + 8, big |-> FALSE]

(* ---- graph6 ---- *)
G6Bits(G)   == [r \in 1..((G.n * (G.n - 1)) \div 2) |-> IF \E e \in G.E : EdgeRank(e) = r - 1 THEN 1 ELSE 0]
G6Encode(G) == NBytes(G.n) \o R(G6Bits(G))
(* strict reader: [ok, G] *)
G6Decode(bytes) ==
    IF ~InRange(bytes) THEN [ok |-> FALSE, G |-> Empty(0)]
    ELSE LET h == ReadN(bytes, 1) IN
         IF ~h.ok \/ h.big THEN [ok |-> FALSE, G |-> Empty(0)]
         ELSE LET need == (h.n * (h.n - 1)) \div 2
                  bits == UnR(SubSeq(bytes, h.next, Len(bytes))) IN
              IF Len(bits) < need \/ Len(bits) >= need + 6 THEN [ok |-> FALSE, G |-> Empty(0)]
              ELSE [ok |-> TRUE, G |-> [n |-> h.n, E |-> { e \in AllPairs(h.n) : bits[EdgeRank(e) + 1] = 1 }]]

(* ---- sparse6 ---- *)
RECURSIVE BitLen(_)
BitLen(x) == IF x = 0 THEN 0 ELSE 1 + BitLen(x \div 2)
S6K(n) == IF n <= 1 THEN 0 ELSE BitLen(n - 1)            \* bits needed to represent n-1
(* the reading machine of the format description: state (v, edges), one (b, x) pair at a time;
   an incomplete pair at the end is discarded; reading stops when v would leave 0..n-1 *)
RECURSIVE S6ReadL(_, _, _, _, _, _, _)
S6ReadL(bits, pos, k, n, v, E, loop) ==            \* loop: a pair {v, v} was read (sparse6 can express loops; a simple graph has none)
    IF pos + k > Len(bits) THEN [E |-> E, loop |-> loop]
    ELSE LET b == bits[pos]
             x == ValOf(SubSeq(bits, pos + 1, pos + k))
             v1 == IF b = 1 THEN v + 1 ELSE v IN
         IF v1 >= n THEN [E |-> E, loop |-> loop]
         ELSE IF x > v1 THEN (IF x >= n THEN [E |-> E, loop |-> loop] ELSE S6ReadL(bits, pos + k + 1, k, n, x, E, loop))
         ELSE S6ReadL(bits, pos + k + 1, k, n, v1, IF x = v1 THEN E ELSE E \cup {{x, v1}}, loop \/ x = v1)
S6Read(bits, pos, k, n, v, E) == S6ReadL(bits, pos, k, n, v, E, FALSE).E
(* bytes include the leading ':' *)
S6Decode(bytes) ==
    IF Len(bytes) < 2 \/ bytes[1] # 58 \/ ~InRange(SubSeq(bytes, 2, Len(bytes))) THEN [ok |-> FALSE, G |-> Empty(0), loop |-> FALSE]
    ELSE LET h == ReadN(bytes, 2) IN
         IF ~h.ok \/ h.big THEN [ok |-> FALSE, G |-> Empty(0), loop |-> FALSE]
         ELSE LET r == S6ReadL(UnR(SubSeq(bytes, h.next, Len(bytes))), 1, S6K(h.n), h.n, 0, {}, FALSE) IN
              [ok |-> TRUE, G |-> [n |-> h.n, E |-> r.E], loop |-> r.loop]
S6HeaderOK(bytes, n) == Len(bytes) >= 2 /\ bytes[1] = 58 /\ LET h == ReadN(bytes, 2) IN h.ok /\ ~h.big /\ h.n = n
                        /\ SubSeq(bytes, 2, h.next - 1) = NBytes(n)

(* ---- Multicode ---- *)
RECURSIVE McRows(_, _)
McRows(G, i) == IF i >= G.n - 1 THEN <<>>
                ELSE [k \in 1..Cardinality({ j \in Nbrs(G, i) : j > i }) |-> SortedSeq({ j \in Nbrs(G, i) : j > i })[k] + 1] \o <<0>> \o McRows(G, i + 1)
McEncode(G) == IF G.n = 0 THEN <<0>> ELSE <<G.n>> \o McRows(G, 0)

(* ---- adjacency matrix text (MATLAB style): "[" rows separated by ";" entries separated by "," "]" ; "[]" for the empty graph ---- *)
AdjChar(G, i, j) == IF {i, j} \in G.E THEN 49 ELSE 48
RECURSIVE AdjRow(_, _, _)
AdjRow(G, i, j) == IF j = G.n - 1 THEN <<AdjChar(G, i, j)>> ELSE <<AdjChar(G, i, j), 44>> \o AdjRow(G, i, j + 1)
RECURSIVE AdjRows(_, _)
AdjRows(G, i) == IF i = G.n - 1 THEN AdjRow(G, i, 0) ELSE AdjRow(G, i, 0) \o <<59>> \o AdjRows(G, i + 1)
AdjMatEncode(G) == IF G.n = 0 THEN <<91, 93>> ELSE <<91>> \o AdjRows(G, 0) \o <<93>>

(* ---- Pruefer ---- *)
IsTree(G) == G.n >= 1 /\ NumEdges(G) = G.n - 1 /\
             LET RECURSIVE Reach(_)
                 Reach(S) == LET S2 == S \cup UNION { Nbrs(G, v) : v \in S } IN IF S2 = S THEN S ELSE Reach(S2)
             IN Reach({0}) = Verts(G.n)
RECURSIVE PruferOf(_, _)                \* G a tree, left = the vertices not yet removed
PruferOf(G, left) ==
    IF Cardinality(left) <= 2 THEN <<>>
    ELSE LET leaf == Min({ v \in left : Cardinality(Nbrs(G, v) \cap left) = 1 })
             nb == CHOOSE u \in Nbrs(G, leaf) \cap left : TRUE IN
         <<nb>> \o PruferOf(G, left \ {leaf})
PruferEncode(G) == PruferOf(G, Verts(G.n))
RECURSIVE PruferEdges(_, _, _)          \* code, position, degree function -> edge set
PruferEdges(p, i, deg) ==
    IF i > Len(p) THEN LET L == { v \in DOMAIN deg : deg[v] = 1 } IN { L }
    ELSE LET leaf == Min({ v \in DOMAIN deg : deg[v] = 1 }) IN
         { {leaf, p[i]} } \cup PruferEdges(p, i + 1, [deg EXCEPT ![leaf] = 0, ![p[i]] = @ - 1])
PruferDecode(p) == LET n == Len(p) + 2
                       deg == [v \in 0..(n-1) |-> 1 + Cardinality({ i \in 1..Len(p) : p[i] = v })]
                   IN [n |-> n, E |-> PruferEdges(p, 1, deg)]
=============================================================================
