CONSTANT N = 4
INIT Init
NEXT Next
VIEW View
INVARIANT NoLongChain
CHECK_DEADLOCK FALSE
