CONSTANT N = 4
INIT Init
NEXT Next
VIEW View
INVARIANTS Structure SameRootIffSameClass
PROPERTIES StepRefines Refines
CHECK_DEADLOCK FALSE
