--------------------------- MODULE DisjointSetImpl --------------------------
(***************************************************************************)
(* C18, implementation level: the parent array of disjoint/disjoint_set.go  *)
(* (negative entry = root, the magnitude is the rank; union by rank; Find   *)
(* re-points every visited node except the last two at the root).  Buffered *)
(* and unbuffered calls are distinct actions with the same meaning.  TLC    *)
(* checks that this refines DisjointSet (the partition changes only by      *)
(* merging the two classes named by a Union) and the structural invariants; *)
(* its state graph - which contains the long chains that make compression   *)
(* fire - is the behaviour generator for the conformance replay.            *)
(***************************************************************************)
EXTENDS Integers, Sequences, FiniteSets, FiniteSetsExt, SequencesExt, TLC

CONSTANT N
VARIABLES ds,      \* parent array
          act      \* last action [op, x, y, ret] - output only
vars == <<ds, act>>
Elems == 0..(N-1)

RECURSIVE PathFrom(_, _)
PathFrom(d, x) == IF d[x] < 0 THEN <<x>> ELSE <<x>> \o PathFrom(d, d[x])     \* x, parent, ..., root
RootOf(d, x)   == LET p == PathFrom(d, x) IN p[Len(p)]
(* Find: all visited nodes except the last two are re-pointed at the root *)
Compress(d, x) == LET p == PathFrom(d, x)  r == p[Len(p)] IN
                  [i \in Elems |-> IF \E k \in 1..(Len(p) - 2) : p[k] = i THEN r ELSE d[i]]
Link(d, px, py) == IF px = py THEN d
                   ELSE IF d[px] < d[py] THEN [d EXCEPT ![py] = px]
                   ELSE IF d[py] < d[px] THEN [d EXCEPT ![px] = py]
                   ELSE [d EXCEPT ![px] = py, ![py] = d[py] - 1]
UnionEff(d, x, y) == LET d1 == Compress(d, x)  d2 == Compress(d1, y)
                     IN Link(d2, RootOf(d, x), RootOf(d1, y))

SmOf(d) == [i \in Elems |-> Min({ j \in Elems : RootOf(d, j) = RootOf(d, i) })]

Init == ds = [i \in Elems |-> -1] /\ act = [op |-> "New", x |-> 0, y |-> 0, ret |-> 0]
DoFind(op, x)     == ds' = Compress(ds, x) /\ act' = [op |-> op, x |-> x, y |-> 0, ret |-> RootOf(ds, x)]
DoUnion(op, x, y) == ds' = UnionEff(ds, x, y) /\ act' = [op |-> op, x |-> x, y |-> y, ret |-> 0]
Next == \/ \E x \in Elems : DoFind("Find", x) \/ DoFind("FindBuffered", x)
        \/ \E x, y \in Elems : DoUnion("Union", x, y) \/ DoUnion("UnionBuffered", x, y)
Spec == Init /\ [][Next]_vars

(* ---- refinement and invariants ---- *)
Abs == INSTANCE DisjointSet WITH sm <- SmOf(ds)
Refines == Abs!Spec
(* precisely: a union step merges exactly the two classes, a find step is a stutter *)
StepRefines == [][ IF act'.op \in {"Union", "UnionBuffered"} THEN SmOf(ds') = Abs!Merge(SmOf(ds), act'.x, act'.y)
                   ELSE SmOf(ds') = SmOf(ds) /\ act'.ret = RootOf(ds, act'.x) /\ RootOf(ds', act'.x) = act'.ret ]_vars
RECURSIVE Height(_, _)
Height(d, r) == LET kids == { i \in Elems : d[i] = r } IN IF kids = {} THEN 0 ELSE 1 + Max({ Height(d, k) : k \in kids })
Structure == \A i \in Elems :
                /\ ds[i] < N /\ ds[i] # i
                /\ ds[i] < 0 => Height(ds, i) <= -ds[i] - 1      \* the rank bounds the height
                /\ ds[i] >= 0 => ds[ds[i]] # i
SameRootIffSameClass == \A i, j \in Elems : (RootOf(ds, i) = RootOf(ds, j)) <=> (SmOf(ds)[i] = SmOf(ds)[j])
=============================================================================
