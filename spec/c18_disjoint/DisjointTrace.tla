----------------------------- MODULE DisjointTrace --------------------------
(***************************************************************************)
(* C18, code -> spec.  Monitor-style acceptor: replays logged Union / Find  *)
(* calls on the abstract specification DisjointSet (variable sm) and checks *)
(* after every call the value returned by Find and the observers, all taken *)
(* on copies so that observation does not perturb the history:              *)
(* Find(i) for every i, Sets(), SmallestRep(), Roots().                     *)
(***************************************************************************)
EXTENDS DisjointSet, TraceLib

VARIABLES l, dead, bad, st
Ev == Trace[l]

ZeroBased(s) == [i \in 0..(Len(s) - 1) |-> s[i+1]]

JudgeObs(s, o) ==
    LET n == Cardinality(DOMAIN s) IN
    IF Len(o.rep) # n \/ Len(o.small) # n THEN "observer lengths"
    ELSE IF \E i \in 1..n : o.rep[i] \notin DOMAIN s THEN "Find returned a non-element"
    ELSE IF ~IsRepFun(ZeroBased(o.rep), s) THEN "Find does not identify exactly the joined elements"
    ELSE IF ZeroBased(o.small) # s THEN "SmallestRep differs from the partition"
    ELSE IF o.sets # SetsOf(s) THEN "Sets differs from the partition (sorted sets ordered by least element)"
    ELSE IF (\E k \in 1..Len(o.roots) : o.roots[k] \notin DOMAIN s) \/ ~IsTransversal(o.roots, s) THEN "Roots is not one element per set"
    ELSE ""

Judge(s, e) ==
    LET a == e.a IN
    IF a.x \notin DOMAIN s \/ (a.op \in {"Union", "UnionBuffered"} /\ a.y \notin DOMAIN s) THEN "HARNESS: element out of range"
    ELSE IF e.res # "ok" THEN e.res
    ELSE LET s2 == IF a.op \in {"Union", "UnionBuffered"} THEN Merge(s, a.x, a.y) ELSE s IN
         IF a.op \in {"Find", "FindBuffered"} /\ (a.ret \notin DOMAIN s \/ s[a.ret] # s[a.x]) THEN "Find returned an element of another set"
         ELSE IF a.op \in {"Find", "FindBuffered"} /\ e.obs.rep[a.x + 1] # a.ret THEN "Find is not stable: a repeated lookup gives another representative"
         ELSE JudgeObs(s2, e.obs)

TInit == l = 1 /\ sm = <<>> /\ dead = FALSE /\ bad = <<>>
         /\ st = [segs |-> 0, ops |-> 0, unions |-> 0, merges |-> 0, maxn |-> 0]

TStep ==
    /\ l <= NEvents /\ l' = l + 1
    /\ IF Ev.ev = "Reset"
       THEN /\ sm' = <<>> /\ dead' = FALSE /\ bad' = bad /\ st' = [st EXCEPT !.segs = @ + 1]
       ELSE IF dead THEN UNCHANGED <<sm, dead, bad, st>>
       ELSE IF Ev.ev = "New"
       THEN LET s0 == [i \in 0..(Ev.n - 1) |-> i]
                why == IF Ev.res # "ok" THEN Ev.res ELSE JudgeObs(s0, Ev.obs) IN
            /\ sm' = s0 /\ dead' = (why # "")
            /\ bad' = IF why = "" THEN bad ELSE Note(bad, [seg |-> Ev.seg, l |-> l, why |-> why \o " [New]"])
            /\ st' = [st EXCEPT !.maxn = IF Ev.n > @ THEN Ev.n ELSE @]
       ELSE LET why == Judge(sm, Ev)
                isU == Ev.a.op \in {"Union", "UnionBuffered"} IN
            /\ sm' = IF isU /\ Ev.a.x \in DOMAIN sm /\ Ev.a.y \in DOMAIN sm THEN Merge(sm, Ev.a.x, Ev.a.y) ELSE sm
            /\ dead' = (why # "")
            /\ bad' = IF why = "" THEN bad ELSE Note(bad, [seg |-> Ev.seg, l |-> l, why |-> why \o " [" \o Ev.a.op \o "]"])
            /\ st' = [st EXCEPT !.ops = @ + 1, !.unions = @ + (IF isU THEN 1 ELSE 0),
                                !.merges = @ + (IF isU /\ sm' # sm THEN 1 ELSE 0)]

Report == ReportLine(l, [bad |-> bad, st |-> st, events |-> NEvents])
(* the monitor's own state is always a canonical partition *)
ModelCanonical == \A i \in DOMAIN sm : sm[i] <= i /\ sm[sm[i]] = sm[i]
=============================================================================
