CONSTANT N = 5
INIT Init
NEXT DumpNext
VIEW View
CHECK_DEADLOCK FALSE
