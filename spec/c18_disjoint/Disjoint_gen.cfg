CONSTANT N = 4
INIT Init
NEXT DumpNext
VIEW View
CHECK_DEADLOCK FALSE
