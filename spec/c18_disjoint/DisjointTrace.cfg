CONSTANT N = 0
INIT TInit
NEXT TStep
INVARIANTS Report ModelCanonical
CHECK_DEADLOCK FALSE
