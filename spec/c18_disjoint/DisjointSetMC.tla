---------------------------- MODULE DisjointSetMC ---------------------------
EXTENDS DisjointSetImpl, Json
View == ds
J(d) == [ds |-> [i \in 1..N |-> d[i-1]], sm |-> [i \in 1..N |-> SmOf(d)[i-1]]]
DumpNext == Next /\ PrintT(<<"T", ToJson([f |-> J(ds), a |-> act', t |-> J(ds')])>>)
(* vacuity witness: some reachable forest has a path of 3 nodes (so compression fires) *)
NoLongChain == \A x \in Elems : Len(PathFrom(ds, x)) < 3
=============================================================================
