------------------------------ MODULE IterTrace -----------------------------
(***************************************************************************)
(* C15, code -> spec.  One event = one complete run of a real iterator:     *)
(* Next until it answered false, then three more calls; Value (FreqValue,   *)
(* InverseValue) snapshotted after every true.  The monitor steps the       *)
(* protocol machine of Iterators.tla through the logged answers, with Fam   *)
(* instantiated by the advertised family of the logged parameters.          *)
(***************************************************************************)
EXTENDS Iterators, TraceLib

VARIABLES l, bad, st
EmptyFam == <<>>
Ev == Trace[l]

Ordered == {"Combinations", "CombinationsColex", "LexicographicPermutations", "MultisetPermutations",
            "Partitions", "IntegerPartitions", "RestrictedPrefixPermutations"}
(* size-0 families that the code explicitly treats as empty although the empty object exists: open reading *)
OpenEmpty(in) == \/ in.kind = "LexicographicPermutations" /\ in.p[1] = 0
                 \/ in.kind = "MultisetPermutations" /\ SumSeq(in.m) = 0
                 \/ in.kind = "IntegerPartitions" /\ in.p[1] = 0
Refused(in)   == in.kind = "Partitions" /\ in.p[1] < 1        \* documented: panics for n < 1

(* the advertised family, as a set of objects *)
Family(in) ==
    LET pass == SeqToSet(in.pass)  less == SeqToSet(in.less) IN
    CASE in.kind \in {"Combinations", "CombinationsColex"} -> Combs(in.p[1], in.p[2])
      [] in.kind \in {"Permutations", "LexicographicPermutations"} -> PermsOf(in.p[1])
      [] in.kind = "MultisetPermutations" -> MultisetPerms(in.m)
      [] in.kind = "MultisetCombinations" -> { Expand(f, 1) : f \in MultisetFreqs(in.m, in.p[1]) }
      [] in.kind = "Partitions" -> RGS(in.p[1])                       \* compared through Blocks
      [] in.kind = "IntegerPartitions" -> IntParts(in.p[1], in.p[1])
      [] in.kind = "Product" -> ProductOf(in.m)
      [] in.kind = "RestrictedPrefixProduct" -> { s \in ProductOf(in.m) : AllPrefixesIn(s, pass) }
      [] in.kind = "RestrictedPrefixPermutations" -> { s \in PermsOf(in.p[1]) : AllPrefixesIn(s, pass) }
      [] in.kind = "PermutationsByPattern" -> { s \in PermsOf(in.p[1]) : AllPatternsIn(s, pass) }
      [] in.kind = "TopologicalSorts" -> { s \in PermsOf(in.p[1]) : Respects(s, less) }

Less(kind, a, b) == CASE kind = "CombinationsColex" -> ColexLess(a, b)
                      [] kind = "IntegerPartitions" -> RevLexLess(a, b)
                      [] OTHER -> LexLess(a, b)

(* logged value of a step, in the representation of Family *)
Obj(in, s) == IF in.kind = "Partitions" THEN s.blocks ELSE s.val
Want(in, o) == IF in.kind = "Partitions" THEN Blocks(o) ELSE o

Judge(e) ==
    LET in == e.in
        nT == IF \E i \in 1..Len(e.steps) : ~e.steps[i].ok THEN Min({ i \in 1..Len(e.steps) : ~e.steps[i].ok }) - 1 ELSE Len(e.steps)
        got == [i \in 1..nT |-> Obj(in, e.steps[i])]
    IN
    IF Refused(in) THEN (IF e.res \in {"ok"} \/ SubSeq(e.res, 1, 7) = "refuse:" THEN "" ELSE e.res)
    ELSE IF e.res # "ok" THEN e.res
    ELSE IF nT = Len(e.steps) THEN "never answered false (more objects than any family in the grid has)"
    ELSE IF Len(e.steps) # nT + 4 \/ \E i \in (nT + 1)..Len(e.steps) : e.steps[i].ok THEN "Next answered true again after it had answered false"
    ELSE LET fam == Family(in)
             want == { Want(in, o) : o \in fam } IN
         IF OpenEmpty(in) THEN (IF nT = 0 \/ (nT = 1 /\ got[1] = <<>>) THEN "" ELSE "size-0 family: neither nothing nor the one empty object")
         ELSE IF SeqToSet(got) # want THEN
              (IF \E i \in 1..nT : got[i] \notin want THEN "yielded an object outside the advertised family" ELSE "an object of the advertised family was never yielded")
         ELSE IF nT # Cardinality(want) THEN "an object was yielded more than once"
         ELSE IF in.kind \in Ordered /\ \E i \in 1..(nT - 1) :
                    ~Less(in.kind, IF in.kind = "Partitions" THEN CHOOSE a \in fam : Blocks(a) = got[i] ELSE got[i],
                                   IF in.kind = "Partitions" THEN CHOOSE a \in fam : Blocks(a) = got[i+1] ELSE got[i+1])
              THEN "objects not in the documented order"
         ELSE IF in.kind = "MultisetCombinations" /\ \E i \in 1..nT : Expand(e.steps[i].aux, 1) # got[i] THEN "FreqValue does not describe Value"
         ELSE IF in.kind = "TopologicalSorts" /\ \E i \in 1..nT : e.steps[i].aux # InvPerm(got[i]) THEN "InverseValue is not the inverse permutation"
         ELSE ""

TInit == l = 1 /\ bad = <<>> /\ delivered = 0 /\ exhausted = FALSE /\ last = "none"
         /\ st = [segs |-> 0, runs |-> 0, objects |-> 0, nontrivial |-> 0, kinds |-> {}]

TStep ==
    /\ l <= NEvents /\ l' = l + 1 /\ UNCHANGED <<delivered, exhausted, last>>
    /\ IF Ev.ev = "Reset" THEN bad' = bad /\ st' = [st EXCEPT !.segs = @ + 1]
       ELSE LET why == Judge(Ev)
                nT == Cardinality({ i \in 1..Len(Ev.steps) : Ev.steps[i].ok }) IN
            /\ bad' = IF why = "" THEN bad ELSE Note(bad, [seg |-> Ev.seg, l |-> l, why |-> why \o " [" \o Ev.in.kind \o "]"])
            /\ st' = [st EXCEPT !.runs = @ + 1, !.objects = @ + nT, !.kinds = @ \cup {Ev.in.kind},
                                !.nontrivial = @ + (IF nT >= 2 \/ (Len(Ev.in.pass) > 0 /\ nT < 2) THEN 1 ELSE 0)]

Report == ReportLine(l, [bad |-> bad, st |-> [st EXCEPT !.kinds = Cardinality(@)], events |-> NEvents])
=============================================================================
