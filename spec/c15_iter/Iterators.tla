------------------------------ MODULE Iterators -----------------------------
(***************************************************************************)
(* C15.  The itertools iterators.                                           *)
(*  - The protocol, as a state machine over an abstract family Fam (a       *)
(*    sequence without repeats): every successful Next delivers the next    *)
(*    member; after the last one Next answers FALSE for ever.               *)
(*  - The advertised family of every iterator, as a TLA+ set, and its       *)
(*    documented order (where the documentation fixes one) as a comparator. *)
(* Objects are sequences of integers (1-indexed here, 0-based values).      *)
(***************************************************************************)
EXTENDS Integers, Sequences, FiniteSets, FiniteSetsExt, SequencesExt, TLC

SeqSet(s)     == { s[i] : i \in 1..Len(s) }
Sorted(S)     == SetToSortSeq(S, <)
Prefix(s, k)  == SubSeq(s, 1, k)
SumSeq(s)     == FoldLeft(LAMBDA a, b : a + b, 0, s)
Count(s, v)   == Cardinality({ i \in 1..Len(s) : s[i] = v })
Fact(n)       == FoldSet(LAMBDA a, b : a * b, 1, 1..n)
RECURSIVE Binom(_, _)
Binom(n, k)   == IF k < 0 \/ k > n THEN 0 ELSE IF k = 0 THEN 1 ELSE (Binom(n - 1, k - 1) * n) \div k

(* ---- orders ---- *)
(* first index where two sequences differ, 0 if one is a prefix of the other (or equal) *)
FirstDiff(a, b) == LET D == { i \in 1..Min({Len(a), Len(b)}) : a[i] # b[i] } IN IF D = {} THEN 0 ELSE Min(D)
LexLess(a, b)   == LET d == FirstDiff(a, b) IN IF d = 0 THEN Len(a) < Len(b) ELSE a[d] < b[d]
RevLexLess(a, b) == LexLess(b, a)
(* colex on increasing sequences: compare the largest element in which they differ *)
ColexLess(a, b) == LET A == SeqSet(a)  B == SeqSet(b)  D == (A \ B) \cup (B \ A) IN D # {} /\ Max(D) \in B

(* ---- families ---- *)
Combs(n, k)     == { Sorted(S) : S \in { T \in SUBSET (0..(n-1)) : Cardinality(T) = k } }
PermsOf(n)      == { p \in [1..n -> 0..(n-1)] : SeqSet(p) = 0..(n-1) }
MultisetPerms(f) == LET N == SumSeq(f) IN
                    { s \in [1..N -> 0..(Len(f) - 1)] : \A v \in 0..(Len(f) - 1) : Count(s, v) = f[v+1] }
(* frequency vectors of the k-multisets with at most m[i] copies of i *)
MultisetFreqs(m, k) == { f \in [1..Len(m) -> 0..k] : (\A i \in 1..Len(m) : f[i] <= m[i]) /\ SumSeq(f) = k }
RECURSIVE Expand(_, _)
Expand(f, i)    == IF i > Len(f) THEN <<>> ELSE [j \in 1..f[i] |-> i - 1] \o Expand(f, i + 1)   \* the multiset as a sorted list
(* restricted growth strings a[1] = 0, a[i] <= 1 + max of the earlier entries *)
RGS(n)          == { a \in [1..n -> 0..(n-1)] : \A i \in 1..n : a[i] <= (IF i = 1 THEN 0 ELSE 1 + Max({ a[j] : j \in 1..(i-1) })) }
Blocks(a)       == LET m == Max(SeqSet(a)) IN [b \in 1..(m + 1) |-> Sorted({ i - 1 : i \in { j \in 1..Len(a) : a[j] = b - 1 } })]
RECURSIVE IntParts(_, _)                       \* descending sequences of positive integers <= mx summing to n
IntParts(n, mx) == IF n = 0 THEN { <<>> }
                   ELSE UNION { { <<p>> \o t : t \in IntParts(n - p, p) } : p \in 1..Min({n, mx}) }
ProductOf(ns)   == { s \in [1..Len(ns) -> 0..Max({0} \cup { ns[i] - 1 : i \in 1..Len(ns) })] : \A i \in 1..Len(ns) : s[i] < ns[i] }
AllPrefixesIn(s, pass) == \A k \in 1..Len(s) : Prefix(s, k) \in pass
(* standardisation: the pattern of a sequence of distinct numbers *)
Std(s)          == [i \in 1..Len(s) |-> Cardinality({ j \in 1..Len(s) : s[j] < s[i] })]
AllPatternsIn(s, pass) == \A k \in 1..Len(s) : Std(Prefix(s, k)) \in pass
PosOf(p, v)     == CHOOSE i \in 1..Len(p) : p[i] = v
Respects(p, less) == \A c \in less : PosOf(p, c[1]) < PosOf(p, c[2])
InvPerm(p)      == [v \in 1..Len(p) |-> PosOf(p, v - 1) - 1]

(* ---- the protocol state machine ---- *)
CONSTANT Fam                      \* a sequence of distinct objects
VARIABLES delivered, exhausted, last
vars == <<delivered, exhausted, last>>
Init == delivered = 0 /\ exhausted = FALSE /\ last = "none"
NextTrue  == delivered < Len(Fam) /\ delivered' = delivered + 1 /\ last' = "true" /\ UNCHANGED exhausted
NextFalse == delivered = Len(Fam) /\ exhausted' = TRUE /\ last' = "false" /\ UNCHANGED delivered
Next == NextTrue \/ NextFalse
Spec == Init /\ [][Next]_vars
Absorbing == [][exhausted => (exhausted' /\ delivered' = delivered /\ last' = "false")]_vars
NoSkip    == [][delivered' \in {delivered, delivered + 1}]_vars
TypeOK    == delivered \in 0..Len(Fam) /\ (exhausted => delivered = Len(Fam))
=============================================================================
