CONSTANT Fam <- FamMC
INIT Init
NEXT Next
INVARIANT TypeOK
PROPERTIES Absorbing NoSkip
CHECK_DEADLOCK FALSE
