----------------------------- MODULE IteratorsMC ----------------------------
(* Self-consistency of the family definitions against closed forms (the     *)
(* oracle is checked before it is trusted) and the protocol machine.        *)
EXTENDS Iterators
FamMC == <<"a", "b", "c">>
Bell  == <<1, 2, 5, 15, 52, 203>>
PNum  == <<1, 1, 2, 3, 5, 7, 11, 15, 22>>      \* p(0..8)
ASSUME \A n \in 0..6, k \in 0..7 : Cardinality(Combs(n, k)) = Binom(n, k)
ASSUME \A n \in 0..5 : Cardinality(PermsOf(n)) = Fact(n)
ASSUME \A n \in 1..6 : Cardinality(RGS(n)) = Bell[n] /\ Cardinality({ Blocks(a) : a \in RGS(n) }) = Bell[n]
ASSUME \A n \in 0..8 : Cardinality(IntParts(n, n)) = PNum[n+1]
ASSUME \A f \in [1..3 -> 0..2] : Cardinality(MultisetPerms(f)) * Fact(f[1]) * Fact(f[2]) * Fact(f[3]) = Fact(f[1] + f[2] + f[3])
ASSUME \A m \in [1..3 -> 0..2], k \in 0..7 : Cardinality(MultisetFreqs(m, k)) = Cardinality({ Expand(f, 1) : f \in MultisetFreqs(m, k) })
ASSUME \A ns \in [1..3 -> 0..3] : Cardinality(ProductOf(ns)) = ns[1] * ns[2] * ns[3]
ASSUME Cardinality(ProductOf(<<>>)) = 1
ASSUME \A p \in PermsOf(4) : Std(p) = p /\ InvPerm(InvPerm(p)) = p
ASSUME LexLess(<<0, 1>>, <<0, 2>>) /\ LexLess(<<0>>, <<0, 0>>) /\ ColexLess(<<1, 2>>, <<0, 3>>) /\ ~ColexLess(<<0, 3>>, <<1, 2>>)
=============================================================================
