------------------------------- MODULE CombTrace -----------------------------
(***************************************************************************)
(* C16, code -> spec.  Every event is one call of comb.CoeffUint64, Coeff,  *)
(* Coeffs, Rank or Unrank on the real code; 64-bit quantities travel as     *)
(* base-10^4 limb sequences.  The monitor judges each call against the      *)
(* exact arithmetic of Comb.tla / BigNat.tla.                               *)
(***************************************************************************)
EXTENDS Comb, TraceLib

VARIABLES l, bad, st
Ev == Trace[l]
Refused(res) == Len(res) >= 7 /\ SubSeq(res, 1, 7) = "refuse:"

JudgeCoeff(e, fits64) ==          \* fits64: TRUE for CoeffUint64, FALSE for Coeff (int result)
    IF e.nneg THEN (IF Refused(e.res) THEN "" ELSE "Coeff with negative n must panic (documented)")
    ELSE IF e.kneg THEN (IF e.res = "ok" /\ e.v = <<>> THEN "" ELSE "Coeff with negative k must return 0")
    ELSE LET b == BinomBig(e.n, e.k)
             must == IF fits64 THEN FitsU64(b) ELSE FitsI64(b) IN
         IF e.res = "ok" THEN (IF b.def /\ e.v = b.v THEN "" ELSE "returned a value that is not the binomial coefficient")
         ELSE IF Refused(e.res) THEN (IF must THEN "refused although C(n,k)*min(k,n-k) fits the result type" ELSE "")
         ELSE e.res

JudgeCoeffs(e) ==
    IF Refused(e.res) THEN (IF e.n >= 67 THEN "" ELSE "Coeffs refused although every entry fits an int")
    ELSE IF e.res # "ok" THEN e.res
    ELSE IF Len(e.rows) # e.n + 1 THEN "Coeffs: wrong number of rows"
    ELSE IF \E m \in 0..e.n : Len(e.rows[m + 1]) # (m \div 2) + 1 \/ \E k \in 0..(m \div 2) : e.rows[m + 1][k + 1] # Binom(FromInt(m), k)
         THEN "Coeffs is not Pascal's triangle"
    ELSE ""

JudgeRank(e) ==
    IF ~StrictlyIncreasing(e.s) THEN "HARNESS: Rank input not strictly increasing"
    ELSE LET r == ColexRank(e.s)
             termsFit == \A i \in 1..Len(e.s) : FitsU64(BinomBig(e.s[i], FromInt(i))) IN
         IF e.res = "ok" THEN (IF e.r = r THEN "" ELSE "Rank is not the colexicographic rank")
         ELSE IF Refused(e.res) THEN (IF termsFit /\ Less(r, Two63) THEN "Rank refused although the rank fits an int" ELSE "")
         ELSE e.res

JudgeUnrank(e) ==
    IF e.res = "timeout" THEN "Unrank did not terminate (watchdog)"
    ELSE IF e.res # "ok" THEN e.res
    ELSE IF Len(e.s) # e.k THEN "Unrank returned the wrong number of elements"
    ELSE IF ~StrictlyIncreasing(e.s) THEN "Unrank returned a sequence that is not strictly increasing"
    ELSE IF ColexRank(e.s) # e.r THEN "Rank(Unrank(r, k)) is not r"
    ELSE ""

(* agreement with the order of CombinationsColex: sets[i] is the i-th subset yielded, ranks[i] = Rank of it, unr[i] = Unrank(i-1, k) *)
JudgeColex(e) ==
    IF e.res # "ok" THEN e.res
    ELSE IF \E i \in 1..Len(e.sets) : e.ranks[i] # i - 1 THEN "Rank disagrees with the order of CombinationsColex"
    ELSE IF \E i \in 1..Len(e.sets) : e.unr[i] # e.sets[i] THEN "Unrank disagrees with the order of CombinationsColex"
    ELSE IF \E i \in 1..Len(e.sets) : \E j \in 1..Len(e.sets[i]) : e.sets[i][j] < 0 \/ e.sets[i][j] >= e.n THEN "the reference order contains a set that is not a subset of {0..n-1}"
    ELSE IF e.k >= 0 /\ e.n >= 0 /\ Len(e.sets) < 5000 /\ FromInt(Len(e.sets)) # Binom(FromInt(e.n), e.k) THEN "Rank/Unrank are compared over an order that does not have C(n,k) members"
    ELSE ""

TInit == l = 1 /\ bad = <<>> /\ st = [segs |-> 0, calls |-> 0, refusals |-> 0, beyondTable |-> 0, unranks |-> 0, ranks |-> 0]
Flag(why) == bad' = IF why = "" THEN bad ELSE Note(bad, [seg |-> Ev.seg, l |-> l, why |-> why \o " [" \o Ev.ev \o "]"])
TStep ==
    /\ l <= NEvents /\ l' = l + 1
    /\ IF Ev.ev = "Reset" THEN bad' = bad /\ st' = [st EXCEPT !.segs = @ + 1]
       ELSE /\ Flag(CASE Ev.ev = "Coeff64" -> JudgeCoeff(Ev, TRUE)
                      [] Ev.ev = "Coeff" -> JudgeCoeff(Ev, FALSE)
                      [] Ev.ev = "Coeffs" -> JudgeCoeffs(Ev)
                      [] Ev.ev = "Rank" -> JudgeRank(Ev)
                      [] Ev.ev = "Unrank" -> JudgeUnrank(Ev)
                      [] Ev.ev = "Colex" -> JudgeColex(Ev))
            /\ st' = [st EXCEPT !.calls = @ + 1, !.refusals = @ + (IF Refused(Ev.res) THEN 1 ELSE 0),
                                !.beyondTable = @ + (IF Ev.ev \in {"Coeff64", "Coeff"} /\ ~Ev.nneg /\ Len(Ev.n) >= 1 /\ (Len(Ev.n) > 1 \/ Ev.n[1] > 32) THEN 1 ELSE 0),
                                !.unranks = @ + (IF Ev.ev = "Unrank" THEN 1 ELSE 0), !.ranks = @ + (IF Ev.ev = "Rank" THEN 1 ELSE 0)]
Report == ReportLine(l, [bad |-> bad, st |-> st, events |-> NEvents])
=============================================================================
