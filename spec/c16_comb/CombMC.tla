-------------------------------- MODULE CombMC -------------------------------
(* The combinatorial number system on small sets: ColexRank enumerates the   *)
(* k-subsets of 0..n-1 in colexicographic order as 0,1,2,... (n <= 7).        *)
EXTENDS Comb, SequencesExt
VARIABLE x
Init == x = 0
Next == x < 1 /\ x' = x + 1
KSub(n, k) == { S \in SUBSET (0..(n-1)) : Cardinality(S) = k }
ColexLessSet(A, B) == A # B /\ Max((A \ B) \cup (B \ A)) \in B
AsBig(S) == LET q == SetToSortSeq(S, <) IN [i \in 1..Len(q) |-> FromInt(q[i])]
ASSUME \A n \in 0..7, k \in 0..7 :
          LET order == SetToSortSeq(KSub(n, k), ColexLessSet) IN
          \A i \in 1..Len(order) : ToInt(ColexRank(AsBig(order[i]))) = i - 1
(* Pascal's rule on the exact binomials *)
ASSUME \A n \in 1..40, k \in 1..20 : Binom(FromInt(n), k) = Add(Binom(FromInt(n - 1), k - 1), Binom(FromInt(n - 1), k))
(* the two thresholds the pinned tree got wrong: k = 3 (3329022, not 33290221) and k = 19 (79, not 80) *)
ASSUME FitsU64(BinomBig(FromInt(3329022), FromInt(3))) /\ ~FitsU64(BinomBig(FromInt(3329023), FromInt(3)))
ASSUME ~FitsU64(BinomBig(FromInt(80), FromInt(19))) /\ FitsU64(BinomBig(FromInt(79), FromInt(19)))
=============================================================================
