--------------------------------- MODULE Comb --------------------------------
(***************************************************************************)
(* C16.  Binomial coefficients and the combinatorial number system, over    *)
(* exact naturals (lib/BigNat.tla).  The colexicographic rank of a set      *)
(* s_1 < s_2 < ... < s_k of naturals is C(s_1,1) + C(s_2,2) + ... +         *)
(* C(s_k,k); it is a bijection from k-subsets onto 0,1,2,...                *)
(* What the library may refuse: its step-by-step product needs              *)
(* C(n,k) * min(k, n-k) to fit in 64 bits.                                  *)
(***************************************************************************)
EXTENDS BigNat, FiniteSets, FiniteSetsExt

MinBig(a, b) == IF Less(a, b) THEN a ELSE b
(* value of a small BigNat as an integer (only called below 2^31) *)
RECURSIVE ToInt(_)
ToInt(a) == IF a = <<>> THEN 0 ELSE a[1] + Base * ToInt(SubSeq(a, 2, Len(a)))
IsSmall(a, bound) == Len(a) <= 1 /\ ToInt(a) <= bound

(* exact C(n, k) for big n and big k, when min(k, n-k) <= 60; [def, v] *)
BinomBig(n, k) == IF Less(n, k) THEN [def |-> TRUE, v |-> <<>>, kk |-> 0]
                  ELSE LET kk == MinBig(k, Sub(n, k)) IN
                       IF IsSmall(kk, 60) THEN [def |-> TRUE, v |-> Binom(n, ToInt(kk)), kk |-> ToInt(kk)]
                       ELSE [def |-> FALSE, v |-> <<>>, kk |-> 61]     \* C(n,k) >= C(122,61) > 2^64
(* the library may refuse exactly when the step-by-step product does not fit *)
Needs(b)      == Mul(b.v, FromInt(b.kk))
FitsU64(b)    == b.def /\ Less(Needs(b), Two64)
FitsI64(b)    == b.def /\ Less(Needs(b), Two63)

(* C(n, k) through the smaller of k and n-k when n is small enough to be an integer (cost only) *)
BinomSym(n, k) == IF Len(n) <= 2 THEN LET ni == ToInt(n) IN IF ni < k THEN <<>> ELSE Binom(n, IF k < ni - k THEN k ELSE ni - k)
                  ELSE Binom(n, k)
RECURSIVE RankFrom(_, _)
RankFrom(s, i) == IF i > Len(s) THEN <<>> ELSE Add(BinomSym(s[i], i), RankFrom(s, i + 1))
ColexRank(s)  == RankFrom(s, 1)                     \* s: sequence of BigNat, strictly increasing
StrictlyIncreasing(s) == \A i \in 1..(Len(s) - 1) : Less(s[i], s[i+1])
=============================================================================
