------------------------------ MODULE BigNatMC -------------------------------
(* BigNat against native integers below 2^31, and a few known large values.  *)
EXTENDS BigNat, FiniteSets
VARIABLE x
Init == x = 0
Next == x < 1 /\ x' = x + 1
RECURSIVE ToInt(_)
ToInt(a) == IF a = <<>> THEN 0 ELSE a[1] + Base * ToInt(SubSeq(a, 2, Len(a)))
S == {0, 1, 2, 7, 9999, 10000, 10001, 12345, 46340, 46341, 65535, 99999999, 100000000, 2147483647}
ASSUME \A a \in S : ToInt(FromInt(a)) = a /\ IsNat(FromInt(a))
ASSUME \A a, b \in S : a <= 2147483647 - b => ToInt(Add(FromInt(a), FromInt(b))) = a + b
ASSUME \A a, b \in S : a >= b => ToInt(Sub(FromInt(a), FromInt(b))) = a - b
ASSUME \A a, b \in S : (a < b) = Less(FromInt(a), FromInt(b))
ASSUME \A a, b \in {0, 1, 2, 7, 9999, 10000, 10001, 12345, 46340} : ToInt(Mul(FromInt(a), FromInt(b))) = a * b
ASSUME \A a \in S, s \in {1, 2, 3, 7, 33, 9999, 65536} : ToInt(DivSmall(FromInt(a), s)) = a \div s /\ ModSmall(FromInt(a), s) = a % s
ASSUME Mul(FromInt(65536), Mul(FromInt(65536), Mul(FromInt(65536), FromInt(65536)))) = Two64
ASSUME Add(Two63, Two63) = Two64
RECURSIVE SmallBinom(_, _)
SmallBinom(n, k) == IF k < 0 \/ k > n THEN 0 ELSE IF k = 0 THEN 1 ELSE (SmallBinom(n - 1, k - 1) * n) \div k
ASSUME \A n \in 0..29, k \in 0..15 : ToInt(Binom(FromInt(n), k)) = SmallBinom(n, k)
(* C(68, 34) = 28453041475240576740 > 2^64 *)
ASSUME Binom(FromInt(68), 34) = <<6740, 4057, 4752, 3041, 2845>> /\ Less(Two64, Binom(FromInt(68), 34))
=============================================================================
