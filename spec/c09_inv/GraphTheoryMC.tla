----------------------------- MODULE GraphTheoryMC ----------------------------
(* The definitions against a second characterisation on all graphs n <= 4 (5 for the cheap ones): the oracle is *)
(* cross-checked before it is trusted (DESIGN 9).                                                              *)
EXTENDS GraphTheory
VARIABLE x
Init == x = 0
Next == x < 1 /\ x' = x + 1
G4 == UNION { AllGraphs(n) : n \in 0..4 }
G5 == AllGraphs(5)
(* clique number = independence number of the complement; every clique lies in a maximal one *)
ASSUME \A G \in G4 : CliqueNumber(G) = IndependenceNumber(ComplementG(G)) /\ \A S \in Cliques(G) : \E M \in MaximalCliques(G) : S \subseteq M
(* the DFS colourability test against the function-space definition, chi against the polynomial count *)
ASSUME \A G \in G4 : \A k \in 0..(G.n + 1) : KColourable(G, k) = (NumColourings(G, k) > 0)
ASSUME \A G \in G4 : ChromaticNumber(G) >= CliqueNumber(G) /\ (G.n > 0 => ChromaticNumber(G) <= MaxDeg(G) + 1)
(* deletion-contraction for the number of proper colourings *)
ASSUME \A G \in AllGraphs(4) : \A e \in G.E : \A k \in 0..4 :
          NumColourings(G, k) = NumColourings(RemoveEdge(G, Min(e), Max(e)), k) - NumColourings(ContractE(G, e), k)
(* edge chromatic number = chromatic number of the line graph *)
LineG(G) == LET es == EdgeSeq(G) IN [n |-> Len(es), E |-> { d \in AllPairs(Len(es)) : es[Min(d) + 1] \cap es[Max(d) + 1] # {} }]
ASSUME \A G \in G4 : ChromaticIndex(G) = ChromaticNumber(LineG(G))
(* degeneracy by induced subgraphs = by greedy elimination *)
RECURSIVE Elim(_, _, _)
Elim(G, S, d) == IF S = {} THEN d ELSE LET v == CHOOSE u \in S : \A w \in S : DegIn(G, S, u) <= DegIn(G, S, w) IN
                 Elim(G, S \ {v}, Max({d, DegIn(G, S, v)}))
ASSUME \A G \in G4 \cup G5 : Degeneracy(G) = Elim(G, Verts(G.n), 0)
(* distances are a metric on components; girth through cycle counts; blocks cover every edge exactly once *)
ASSUME \A G \in G4 : \A a, b \in Verts(G.n) : Dist(G, a, b) = Dist(G, b, a) /\ (Dist(G, a, b) = 0) = (a = b) /\ (Dist(G, a, b) = 1) = Adj(G, a, b)
(* cycles through closed walks = cycles as 2-regular connected edge subsets *)
IsCycleEdgeSet(G, F) == F # {} /\ LET VS == UNION F IN (\A v \in VS : Cardinality({ e \in F : v \in e }) = 2) /\ ConnectedOn([n |-> G.n, E |-> F], VS)
ASSUME \A G \in G4 \cup { H \in G5 : NumEdges(H) >= 8 } : \A L \in 0..G.n : NumCycles(G, L) = Cardinality({ F \in SUBSET G.E : Cardinality(F) = L /\ IsCycleEdgeSet(G, F) })
ASSUME \A G \in G4 : (Girth(G) = -1) = (\A L \in 3..G.n : NumCycles(G, L) = 0) /\ \A L \in 3..G.n : NumInducedCycles(G, L) <= NumCycles(G, L)
ASSUME \A G \in G4 : \A e \in G.E : Cardinality({ B \in Blocks(G) : e \subseteq B }) = 1
ASSUME \A G \in G4 : \A v \in Verts(G.n) : (v \in CutVertices(G)) = (Cardinality({ B \in Blocks(G) : v \in B }) >= 2)
(* trees have n-1 induced... : number of induced paths of length 1 is the number of edges, of length 0 the number of vertices *)
ASSUME \A G \in G4 : NumInducedPaths(G, 0) = G.n /\ NumInducedPaths(G, 1) = NumEdges(G)
(* planarity: everything on at most 4 vertices is planar; K5 and K3,3 are not; K5 minus an edge is *)
ASSUME \A G \in G4 : IsPlanar(G)
ASSUME ~IsPlanar(MkGraph(5, AllPairs(5))) /\ IsPlanar(MkGraph(5, AllPairs(5) \ {{0, 1}}))
ASSUME ~IsPlanar(MkGraph(6, { e \in AllPairs(6) : (Min(e) < 3) /\ (Max(e) >= 3) }))
(* the number of planar graphs on 5 labelled vertices: all but K5 (1023 of 1024), with at most 9 edges each *)
ASSUME Cardinality({ G \in G5 : IsPlanar(G) }) = 1023
=============================================================================
