---------------------------- MODULE InvariantsTrace ---------------------------
(***************************************************************************)
(* C09 / C10 / C11, code -> spec.  One event = one base graph g with the     *)
(* results of the real functions on several variants of it (a relabelling   *)
(* pi and a representation: dense, sparse, view).  The definitional values  *)
(* (lib/GraphTheory.tla) are computed once for g; invariants must agree on  *)
(* every variant, labelled outputs (colourings, components, orders) are     *)
(* validated on the relabelled graph.                                       *)
(***************************************************************************)
EXTENDS GraphTheory, TraceLib

VARIABLES l, bad, st
Ev == Trace[l]
SeqRange(s) == { s[i] : i \in 1..Len(s) }
GofJ(g) == GraphOfRankSet(g.n, SeqRange(g.e))
Fn0(s) == [v \in 0..(Len(s) - 1) |-> s[v + 1]]         \* a 0-based function from a JSON array
Crashed(r) == r # "ok"

(* ---------------- C09 ---------------- *)
ColouringWhy(H, k, col, what) ==
    IF Len(col) # H.n THEN what \o ": colouring has the wrong length"
    ELSE IF \E v \in 1..H.n : col[v] < 0 \/ col[v] >= k THEN what \o ": colouring uses a colour outside 0..k-1"
    ELSE IF ~IsProper(H, Fn0(col)) THEN what \o ": colouring is not proper"
    ELSE ""
(* edge colouring in the documented layout: one byte per vertex pair in rank order, 0 for non-edges, colours 1..k *)
EdgeColWhy(H, k, cols) ==
    LET m == (H.n * (H.n - 1)) \div 2 IN
    IF Len(cols) # m THEN "ChromaticIndex: the coloured edge array has the wrong length"
    ELSE IF \E e \in AllPairs(H.n) : (cols[EdgeRank(e) + 1] # 0) # (e \in H.E) THEN "ChromaticIndex: coloured positions are not the edges"
    ELSE IF \E e \in H.E : cols[EdgeRank(e) + 1] < 1 \/ cols[EdgeRank(e) + 1] > k THEN "ChromaticIndex: a colour outside 1..k"
    ELSE IF \E e, f \in H.E : e # f /\ e \cap f # {} /\ cols[EdgeRank(e) + 1] = cols[EdgeRank(f) + 1] THEN "ChromaticIndex: two incident edges share a colour"
    ELSE IF H.E # {} /\ Cardinality({ cols[EdgeRank(e) + 1] : e \in H.E }) # k THEN "ChromaticIndex: the colouring does not use exactly k colours"
    ELSE ""
JudgeC09Var(G, want, v) ==
    LET H == Relabel(G, v.pi)  r == v.r IN
    IF Crashed(v.res) THEN v.res
    ELSE IF ~r.same THEN "an invariant function changed the graph it was given"
    ELSE IF ~r.stable THEN "a slice returned by a colouring / degeneracy function changed during later calls (the result shares memory with them)"
    ELSE IF r.clique # want.omega THEN "CliqueNumber differs from the definition"
    ELSE IF r.indep # want.alpha THEN "IndependenceNumber differs from the definition"
    ELSE IF Len(r.maxcliques) # Cardinality(MaximalCliques(H)) \/ { SeqRange(c) : c \in SeqRange(r.maxcliques) } # MaximalCliques(H)
         THEN "AllMaximalCliques does not report every maximal clique exactly once"
    ELSE IF r.chrom.k # want.chi THEN "ChromaticNumber differs from the definition"
    ELSE IF ColouringWhy(H, want.chi, r.chrom.col, "ChromaticNumber") # "" THEN ColouringWhy(H, want.chi, r.chrom.col, "ChromaticNumber")
    ELSE IF H.n > 0 /\ Cardinality(SeqRange(r.chrom.col)) # want.chi THEN "ChromaticNumber: the colouring does not use exactly chi colours"
    ELSE IF \E i \in 1..Len(r.kcol) : r.kcol[i].ok # (r.kcol[i].k >= want.chi) THEN "IsKColorable answers wrongly"
    ELSE IF \E i \in 1..Len(r.kcol) : r.kcol[i].ok /\ ColouringWhy(H, r.kcol[i].k, r.kcol[i].col, "IsKColorable") # "" THEN "IsKColorable: invalid colouring"
    ELSE IF \E i \in 1..Len(r.kcol) : ~r.kcol[i].ok /\ r.kcol[i].col # <<>> THEN "IsKColorable: a colouring although the answer is false"
    ELSE IF r.chromidx.k # want.chiE THEN "ChromaticIndex differs from the definition"
    ELSE IF EdgeColWhy(H, want.chiE, r.chromidx.cols) # "" THEN EdgeColWhy(H, want.chiE, r.chromidx.cols)
    ELSE IF want.polyOK /\ \E k \in 0..G.n : PolyEval(r.poly, k, 1) # want.P[k + 1] THEN "ChromaticPolynomial(k) is not the number of proper k-colourings"
    ELSE IF \E i \in 1..Len(r.greedy) : r.greedy[i].col # [u \in 1..H.n |-> FirstFitColouring(H, r.greedy[i].order)[u - 1]] THEN "GreedyColor is not the first-fit colouring of its order"
    ELSE IF \E i \in 1..Len(r.greedy) : H.n > 0 /\ r.greedy[i].k \notin { Max(SeqRange(r.greedy[i].col)), Max(SeqRange(r.greedy[i].col)) + 1 } THEN "GreedyColor: returned number is neither the largest colour nor the number of colours"
    ELSE IF r.degen.d # want.degen THEN "Degeneracy differs from the definition"
    ELSE IF H.n > 0 /\ (~IsPermSeq(r.degen.order, H.n) \/
            \E i \in 1..H.n : Cardinality(Nbrs(H, r.degen.order[i]) \cap { r.degen.order[j] : j \in 1..(i - 1) }) > want.degen) THEN "Degeneracy: the ordering does not certify d"
    ELSE IF \E i \in 1..Len(r.rmc) : SeqRange(r.rmc[i].clique) \notin MaximalCliques(H) \/ r.rmc[i].again # r.rmc[i].clique THEN "RandomMaximalClique: not a maximal clique, or not determined by the seed"
    ELSE IF \E i \in 1..Len(r.ipc) : r.ipc[i].ok # (Len(r.ipc[i].col) = H.n /\ (\A u \in 1..H.n : r.ipc[i].col[u] >= 0) /\ IsProper(H, [x \in Verts(H.n) |-> r.ipc[i].col[x + 1]])) THEN "IsProperColouring answers wrongly"
    ELSE ""
WantC09(G) == [omega |-> CliqueNumber(G), alpha |-> IndependenceNumber(G), chi |-> ChromaticNumber(G), chiE |-> ChromaticIndex(G),
               polyOK |-> G.n <= 6, P |-> IF G.n <= 6 THEN [k \in 1..(G.n + 1) |-> NumColourings(G, k - 1)] ELSE <<>>, degen |-> Degeneracy(G)]

(* ---------------- C10 ---------------- *)
AllMinusOne(s) == \A i \in 1..Len(s) : s[i] = -1
SetOfLists(ls) == { SeqRange(x) : x \in SeqRange(ls) }
Ascending(s) == \A i \in 1..(Len(s) - 1) : s[i] < s[i + 1]
(* the definitional values are computed on the base graph G and carried to the relabelled graph: vertex i of the variant is vertex pi[i+1] of G *)
Pull(pi, S) == { i \in 0..(Len(pi) - 1) : pi[i + 1] \in S }
JudgeC10Var(G, want, v) ==
    LET r == v.r  n == G.n  pi == v.pi IN
    IF Crashed(v.res) THEN v.res
    ELSE IF ~r.same THEN "an invariant function changed the graph it was given"
    ELSE IF \E a, b \in Verts(n) : r.dist[a + 1][b + 1] # want.D[pi[a + 1] + 1][pi[b + 1] + 1] THEN "Distance differs from the shortest-path definition"
    ELSE IF Len(r.ecc) # n \/ (IF want.conn THEN \E a \in Verts(n) : r.ecc[a + 1] # want.ecc[pi[a + 1] + 1] ELSE ~AllMinusOne(r.ecc)) THEN "Eccentricity differs from the definition"
    ELSE IF r.diam # want.diam THEN "Diameter differs from the definition"
    ELSE IF r.rad # want.rad THEN "Radius differs from the definition"
    ELSE IF r.girth # want.girth THEN "Girth differs from the definition"
    ELSE IF \E a \in Verts(n) : ~Ascending(r.comp[a + 1]) \/ SeqRange(r.comp[a + 1]) # Pull(pi, want.compOf[pi[a + 1] + 1]) THEN "ConnectedComponent is not the (sorted) component"
    ELSE IF Len(r.comps) # Cardinality(want.comps) \/ SetOfLists(r.comps) # { Pull(pi, C) : C \in want.comps } \/ \E c \in SeqRange(r.comps) : ~Ascending(c) THEN "ConnectedComponents are not exactly the components"
    ELSE IF Len(r.blocks) # Cardinality(want.blocks) \/ SetOfLists(r.blocks) # { Pull(pi, B) : B \in want.blocks } \/ \E c \in SeqRange(r.blocks) : ~Ascending(c) THEN "BiconnectedComponents are not exactly the blocks (each once, sorted)"
    ELSE IF Len(r.arts) # Cardinality(want.cuts) \/ SeqRange(r.arts) # Pull(pi, want.cuts) THEN "articulation vertices differ from the cut vertices"
    ELSE IF r.cycles # want.cycles THEN "NumberOfCycles differs from the number of cycles of each length"
    ELSE IF \E i \in 1..Len(r.indcycles) : r.indcycles[i].counts # [k \in 1..(n + 1) |-> IF k - 1 >= 3 /\ k - 1 <= want.capC[i] THEN want.ic[k] ELSE 0] THEN "NumberOfInducedCycles differs from the definition"
    ELSE IF \E i \in 1..Len(r.indpaths) : r.indpaths[i].counts # [k \in 1..n |-> IF k = 1 \/ k - 1 <= want.capP[i] THEN want.ip[k] ELSE 0] THEN "NumberOfInducedPaths differs from the definition"
    ELSE IF r.mindeg # (IF n = 0 THEN 0 ELSE MinDeg(G)) \/ r.maxdeg # (IF n = 0 THEN 0 ELSE MaxDeg(G)) THEN "MinDegree / MaxDegree differ from the definition"
    ELSE IF r.equal[1] # TRUE \/ r.equal[2] # (n <= 1) \/ (Len(r.equal) = 3 /\ r.equal[3] # FALSE) THEN "graph.Equal answers wrongly"
    ELSE ""
(* maxLength < 0 or beyond the largest possible length means no bound *)
CapC(n, ml) == IF ml < 0 \/ ml > n THEN n ELSE ml
CapP(n, ml) == IF ml < 0 \/ ml > n - 1 THEN n - 1 ELSE ml
WantC10(G, e) ==
    LET n == G.n  conn == IsConnected(G) IN
    [conn |-> conn,
     D |-> [a \in 1..n |-> [b \in 1..n |-> Dist(G, a - 1, b - 1)]],
     ecc |-> [a \in 1..n |-> IF conn THEN Ecc(G, a - 1) ELSE -1],
     compOf |-> [a \in 1..n |-> Component(G, a - 1)], comps |-> Components(G), blocks |-> Blocks(G), cuts |-> CutVertices(G),
     diam |-> IF n = 0 THEN 0 ELSE IF conn THEN Max({ Ecc(G, v) : v \in Verts(n) }) ELSE -1,
     rad  |-> IF n = 0 THEN 0 ELSE IF conn THEN Min({ Ecc(G, v) : v \in Verts(n) }) ELSE -1,
     girth |-> Girth(G),
     cycles |-> CycleVec(G),
     ic |-> [k \in 1..(n + 1) |-> NumInducedCycles(G, k - 1)],
     ip |-> [k \in 1..n |-> NumInducedPaths(G, k - 1)],
     capC |-> [i \in 1..Len(e.mls) |-> CapC(n, e.mls[i])],
     capP |-> [i \in 1..Len(e.mls) |-> CapP(n, e.mls[i])]]

(* graphs with hundreds of vertices whose invariants are known in closed form: star K(1,n-1), complete graph, cycle *)
BigWant(kind, n) == IF kind = "star" THEN [omega |-> 2, chi |-> 2, degen |-> 1, mind |-> 1, maxd |-> n - 1]
                    ELSE IF kind = "complete" THEN [omega |-> n, chi |-> n, degen |-> n - 1, mind |-> n - 1, maxd |-> n - 1]
                    ELSE [omega |-> 2, chi |-> 2 + (n % 2), degen |-> 2, mind |-> 2, maxd |-> 2]
JudgeC09Big(G, kind, v) ==
    LET H == Relabel(G, v.pi)  r == v.r  want == BigWant(kind, G.n) IN
    IF Crashed(v.res) THEN v.res
    ELSE IF ~r.same THEN "an invariant function changed the graph it was given"
    ELSE IF r.clique # want.omega THEN "CliqueNumber differs from the closed form"
    ELSE IF r.chrom.k # want.chi THEN "ChromaticNumber differs from the closed form"
    ELSE IF ColouringWhy(H, want.chi, r.chrom.col, "ChromaticNumber") # "" THEN ColouringWhy(H, want.chi, r.chrom.col, "ChromaticNumber")
    ELSE IF ColouringWhy(H, H.n, r.greedy.col, "GreedyColor") # "" THEN ColouringWhy(H, H.n, r.greedy.col, "GreedyColor")
    ELSE IF r.degen.d # want.degen THEN "Degeneracy differs from the closed form"
    ELSE IF ~IsPermSeq(r.degen.order, H.n) \/
            \E i \in 1..H.n : Cardinality(Nbrs(H, r.degen.order[i]) \cap { r.degen.order[j] : j \in 1..(i - 1) }) > want.degen THEN "Degeneracy: the ordering does not certify d"
    ELSE IF r.mindeg # want.mind \/ r.maxdeg # want.maxd THEN "MinDegree / MaxDegree differ from the closed form"
    ELSE ""

(* ---------------- C11 ---------------- *)
JudgeC11Var(want, v) ==
    IF Crashed(v.res) THEN "IsPlanar " \o v.res
    ELSE IF ~v.r.same THEN "IsPlanar changed the graph it was given"
    ELSE IF v.r.planar # want THEN (IF want THEN "IsPlanar says non-planar for a planar graph" ELSE "IsPlanar says planar for a graph with a K5 or K3,3 minor")
    ELSE ""

JudgeEvent(e) ==
    LET G == GofJ(e.g) IN
    IF \E i \in 1..Len(e.vars) : ~IsPermSeq(e.vars[i].pi, G.n) THEN "HARNESS: relabelling is not a permutation"
    ELSE IF e.prop = "C09" /\ e.known # "" THEN LET bads == { i \in 1..Len(e.vars) : JudgeC09Big(G, e.known, e.vars[i]) # "" } IN
         IF bads = {} THEN "" ELSE JudgeC09Big(G, e.known, e.vars[Min(bads)]) \o " (variant " \o e.vars[Min(bads)].rep \o ")"
    ELSE IF e.prop = "C09" THEN LET w == WantC09(G)  bads == { i \in 1..Len(e.vars) : JudgeC09Var(G, w, e.vars[i]) # "" } IN
         IF bads = {} THEN "" ELSE JudgeC09Var(G, w, e.vars[Min(bads)]) \o " (variant " \o e.vars[Min(bads)].rep \o ")"
    ELSE IF e.prop = "C10" THEN LET w == WantC10(G, e)  bads == { i \in 1..Len(e.vars) : JudgeC10Var(G, w, e.vars[i]) # "" } IN
         IF bads = {} THEN "" ELSE JudgeC10Var(G, w, e.vars[Min(bads)]) \o " (variant " \o e.vars[Min(bads)].rep \o ")"
    ELSE LET w == IF e.known = "planar" THEN TRUE ELSE IF e.known = "nonplanar" THEN FALSE ELSE IsPlanar(G)
             bads == { i \in 1..Len(e.vars) : JudgeC11Var(w, e.vars[i]) # "" } IN
         IF bads = {} THEN "" ELSE JudgeC11Var(w, e.vars[Min(bads)]) \o " (variant " \o e.vars[Min(bads)].rep \o ")"

TInit == l = 1 /\ bad = <<>> /\ st = [segs |-> 0, graphs |-> 0, variants |-> 0, nontrivial |-> 0, oracle |-> 0]
TStep ==
    /\ l <= NEvents /\ l' = l + 1
    /\ IF Ev.ev = "Reset" THEN bad' = bad /\ st' = [st EXCEPT !.segs = @ + 1]
       ELSE LET why == JudgeEvent(Ev) IN
            /\ bad' = IF why = "" THEN bad ELSE Note(bad, [seg |-> Ev.seg, l |-> l, why |-> why])
            /\ st' = [st EXCEPT !.graphs = @ + 1, !.variants = @ + Len(Ev.vars), !.nontrivial = @ + (IF Ev.nt THEN 1 ELSE 0),
                                !.oracle = @ + (IF Ev.prop = "C11" /\ Ev.known # "" THEN 0 ELSE 1)]
Report == ReportLine(l, [bad |-> bad, st |-> st, events |-> NEvents])
=============================================================================
