------------------------------ MODULE TraceLib ------------------------------
(* Common plumbing of the monitor-style trace acceptors (DESIGN.md 2.3).     *)
(* The trace is the ndjson file named by the environment variable            *)
(* VERIF_TRACE, one event per line, written by the Go harness after each     *)
(* call of the real code returned.                                           *)
EXTENDS Integers, Sequences, FiniteSets, TLC, Json, IOUtils

Trace    == ndJsonDeserialize(IOEnv.VERIF_TRACE)
NEvents  == Len(Trace)
Has(r, f) == f \in DOMAIN r
MaxBad   == 300
(* append a finding unless the list is already long (one run reports many, not unboundedly many) *)
Note(bad, e) == IF Len(bad) < MaxBad THEN Append(bad, e) ELSE bad
SeqToSet(s) == { s[i] : i \in 1..Len(s) }
IsOK(res) == res = "ok"
(* emitted exactly once, on the state that has consumed the whole trace *)
ReportLine(l, payload) == l <= NEvents \/ PrintT(<<"VERIF-RESULT", ToJson(payload)>>)
=============================================================================
