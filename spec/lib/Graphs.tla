------------------------------- MODULE Graphs -------------------------------
(***************************************************************************)
(* Finite simple graphs on the vertex set 0..n-1, the abstract value every *)
(* mamba graph representation (DenseGraph, SparseGraph, live views) is     *)
(* projected to.  A graph is a record [n |-> Nat, E |-> set of 2-element   *)
(* vertex sets].  Also: the observation record produced by the Go harness  *)
(* (obs.go) and the predicates relating an observation to a graph.         *)
(***************************************************************************)
EXTENDS Integers, Sequences, FiniteSets, FiniteSetsExt, SequencesExt, Functions, TLC

Verts(n)      == 0..(n-1)
AllPairs(n)   == { {p[1], p[2]} : p \in { q \in Verts(n) \X Verts(n) : q[1] < q[2] } }
PairsSeq(n)   == { <<i,j>> \in Verts(n) \X Verts(n) : i < j }
Empty(n)      == [n |-> n, E |-> {}]
MkGraph(n, E) == [n |-> n, E |-> E]
IsGraph(G)    == G.n \in Nat /\ G.E \subseteq AllPairs(G.n)
AllGraphs(n)  == { MkGraph(n, E) : E \in SUBSET AllPairs(n) }

Adj(G, i, j)  == {i, j} \in G.E /\ i # j
Nbrs(G, v)    == { u \in Verts(G.n) : Adj(G, u, v) }
Deg(G, v)     == Cardinality(Nbrs(G, v))
NumEdges(G)   == Cardinality(G.E)
MinDeg(G)     == Min({ Deg(G, v) : v \in Verts(G.n) })
MaxDeg(G)     == Max({ Deg(G, v) : v \in Verts(G.n) })

SortedSeq(S)  == SetToSortSeq(S, <)      \* ascending sequence of a finite set of integers

(* ---- edit operations (the abstract meaning of the EditableGraph API) ---- *)
AddVertex(G, nb)   == [n |-> G.n + 1, E |-> G.E \cup { {v, G.n} : v \in nb }]
Shift(v, x)        == IF x > v THEN x - 1 ELSE x
RemoveVertex(G, v) == [n |-> G.n - 1,
                       E |-> { { Shift(v, x) : x \in e } : e \in { d \in G.E : v \notin d } }]
AddEdge(G, i, j)    == IF i = j THEN G ELSE [G EXCEPT !.E = @ \cup {{i, j}}]
RemoveEdge(G, i, j) == [G EXCEPT !.E = @ \ {{i, j}}]
(* V is a sequence of vertices; vertex i of the result is V[i+1] *)
Induced(G, V)      == [n |-> Len(V),
                       E |-> { e \in AllPairs(Len(V)) :
                                 LET i == Min(e)  j == Max(e) IN Adj(G, V[i+1], V[j+1]) }]
(* perm is a sequence: new vertex i is old vertex perm[i+1] (mamba's InducedSubgraph(perm)) *)
Relabel(G, perm)   == Induced(G, perm)
ComplementG(G)     == [n |-> G.n, E |-> AllPairs(G.n) \ G.E]
Contract(G, i, j)  == RemoveVertex([G EXCEPT !.E = @ \cup { {i, v} : v \in Nbrs(G, j) \ {i} }], j)
SplitEdge(G, i, j) == AddVertex(RemoveEdge(G, i, j), {i, j})
DisjointUnion(G, H) == [n |-> G.n + H.n, E |-> G.E \cup { { x + G.n : x \in e } : e \in H.E }]

IsInjectiveSeq(V) == \A a, b \in 1..Len(V) : a # b => V[a] # V[b]
IsPermSeq(p, n)   == Len(p) = n /\ { p[i] : i \in 1..n } = Verts(n)
PermSeqs(n)       == { [i \in 1..n |-> f[i - 1]] : f \in Permutations(Verts(n)) }     \* TLC enumerates the n! bijections directly

(* ---- isomorphism, automorphisms, brute-force canonical code ---- *)
IsAutSeq(G, p)    == IsPermSeq(p, G.n) /\ Relabel(G, p) = G
AutSeqs(G)        == { p \in PermSeqs(G.n) : Relabel(G, p).E = G.E }
IsIso(G, H)       == G.n = H.n /\ \E p \in PermSeqs(G.n) : Relabel(G, p).E = H.E
(* code of a labelled graph: the set of ranks of its edges in the order 01,02,12,03,... *)
EdgeRank(e)       == LET i == Min(e)  j == Max(e) IN (j * (j - 1)) \div 2 + i
CodeOf(G)         == { EdgeRank(e) : e \in G.E }
(* compare two finite sets of naturals as bit strings: A < B iff the largest element of the
   symmetric difference lies in B *)
CodeLess(A, B)    == A # B /\ Max((A \ B) \cup (B \ A)) \in B
BFCanonCode(G)    == LET codes == { CodeOf(Relabel(G, p)) : p \in PermSeqs(G.n) }
                     IN CHOOSE c \in codes : \A d \in codes : d = c \/ CodeLess(d, c)
(* a cheaper complete invariant: the largest code over the relabellings that list the vertices by ascending degree
   (isomorphic graphs have the same set of such relabelled graphs; the code determines the graph) *)
DegMonotone(G, p) == \A i \in 1..(G.n - 1) : Deg(G, p[i]) <= Deg(G, p[i + 1])
CanonCode(G)      == LET codes == { CodeOf(Relabel(G, p)) : p \in { q \in PermSeqs(G.n) : DegMonotone(G, q) } }
                     IN CHOOSE c \in codes : \A d \in codes : d = c \/ CodeLess(d, c)
(* orbit partition of a set of permutations (as sequences) acting on 0..n-1 *)
RECURSIVE ReachSet(_, _)
ReachSet(S, gens) == LET S2 == S \cup { g[x+1] : g \in gens, x \in S }
                     IN IF S2 = S THEN S ELSE ReachSet(S2, gens)
OrbitOf(v, gens)  == ReachSet({v}, gens)       \* gens: any set of permutations closed or not (finite order => inverse reachable)
OrbitPartition(n, gens) == { OrbitOf(v, gens) : v \in Verts(n) }
Compose(p, q)     == [i \in 1..Len(p) |-> p[q[i]+1]]   \* (p o q)(i) = p(q(i))
RECURSIVE GroupClosure(_, _)
GroupClosure(S, gens) == LET S2 == S \cup { Compose(g, s) : g \in gens, s \in S }
                         IN IF S2 = S THEN S ELSE GroupClosure(S2, gens)
Generated(n, gens) == GroupClosure({ [i \in 1..n |-> i - 1] }, gens)

(* ---- observations recorded by the Go harness (internal/obs) ---- *)
(* o = [n, m, deg, nbr, adj]: deg, nbr, adj are 1-indexed sequences; adj rows are 0/1 sequences *)
ObsShapeOK(o) == /\ o.n \in Nat
                 /\ Len(o.deg) = o.n /\ Len(o.nbr) = o.n /\ Len(o.adj) = o.n
                 /\ \A i \in 1..o.n : Len(o.adj[i]) = o.n
GraphOfObs(o) == [n |-> o.n, E |-> { e \in AllPairs(o.n) : o.adj[Min(e)+1][Max(e)+1] = 1 }]
(* well-formedness of an observation on its own: symmetric, loop-free, M, degrees and
   ascending neighbour lists all derived from the same adjacency *)
WellFormedObs(o) ==
    /\ ObsShapeOK(o)
    /\ \A i, j \in 1..o.n : o.adj[i][j] \in {0, 1} /\ o.adj[i][j] = o.adj[j][i]
    /\ \A i \in 1..o.n : o.adj[i][i] = 0
    /\ LET G == GraphOfObs(o) IN
         /\ o.m = NumEdges(G)
         /\ \A v \in Verts(o.n) : o.deg[v+1] = Deg(G, v) /\ o.nbr[v+1] = SortedSeq(Nbrs(G, v))
ObsMatches(o, G) == WellFormedObs(o) /\ GraphOfObs(o) = G
(* first reason an observation fails to match, for reports *)
ObsWhy(o, G) ==
    IF ~ObsShapeOK(o) THEN "shape"
    ELSE IF o.n # G.n THEN "n"
    ELSE IF \E i, j \in 1..o.n : o.adj[i][j] # o.adj[j][i] THEN "asymmetric"
    ELSE IF \E i \in 1..o.n : o.adj[i][i] # 0 THEN "loop"
    ELSE IF GraphOfObs(o) # G THEN "edges"
    ELSE IF o.m # NumEdges(G) THEN "M"
    ELSE IF \E v \in Verts(o.n) : o.deg[v+1] # Deg(G, v) THEN "Degrees"
    ELSE IF \E v \in Verts(o.n) : o.nbr[v+1] # SortedSeq(Nbrs(G, v)) THEN "Neighbours"
    ELSE "ok"

(* ---- "lite" observations for larger graphs: [n, m, deg, nbr] without the adjacency matrix ---- *)
RankSetOfLite(o) == { EdgeRank({i - 1, o.nbr[i][k]}) : i \in 1..o.n, k \in 1..0 } \cup
                    UNION { { EdgeRank({i - 1, o.nbr[i][k]}) : k \in 1..Len(o.nbr[i]) } : i \in 1..o.n }
LiteWhy(o) ==
    IF Len(o.deg) # o.n \/ Len(o.nbr) # o.n THEN "shape"
    ELSE IF \E i \in 1..o.n : \E k \in 1..Len(o.nbr[i]) : o.nbr[i][k] < 0 \/ o.nbr[i][k] >= o.n \/ o.nbr[i][k] = i - 1 THEN "neighbour out of range or loop"
    ELSE IF \E i \in 1..o.n : \E k \in 1..(Len(o.nbr[i]) - 1) : o.nbr[i][k] >= o.nbr[i][k+1] THEN "Neighbours not strictly ascending"
    ELSE IF \E i \in 1..o.n : o.deg[i] # Len(o.nbr[i]) THEN "Degrees"
    ELSE IF \E i \in 1..o.n : \E k \in 1..Len(o.nbr[i]) : LET j == o.nbr[i][k] + 1 IN ~\E q \in 1..Len(o.nbr[j]) : o.nbr[j][q] = i - 1 THEN "asymmetric"
    ELSE IF 2 * o.m # FoldLeft(LAMBDA a, b : a + b, 0, o.deg) THEN "M"
    ELSE "ok"
(* the pair {i, j}, i < j, with rank j(j-1)/2 + i; ranks that belong to no pair of 0..n-1 are ignored. Logarithmic in n per rank, so that an *)
(* observation claiming thousands of vertices (a defect of the code under test) does not make the acceptor enumerate all pairs.            *)
RECURSIVE TopOfRank(_, _, _)          \* the largest j in lo..hi with j(j-1)/2 <= r (binary search)
TopOfRank(lo, hi, r) == IF lo >= hi THEN lo
                        ELSE LET mid == (lo + hi + 1) \div 2 IN
                             IF (mid * (mid - 1)) \div 2 <= r THEN TopOfRank(mid, hi, r) ELSE TopOfRank(lo, mid - 1, r)
PairOfRank(n, r) == IF n < 2 \/ r < 0 \/ r >= (n * (n - 1)) \div 2 THEN {}
                    ELSE LET j == TopOfRank(1, n - 1, r) IN { {r - (j * (j - 1)) \div 2, j} }
GraphOfRankSet(n, R) == [n |-> n, E |-> UNION { PairOfRank(n, r) : r \in R }]
RankSetOf(G) == { EdgeRank(e) : e \in G.E }
=============================================================================
