-------------------------------- MODULE BigNat -------------------------------
(***************************************************************************)
(* Natural numbers beyond TLC's 32-bit integers: sequences of base-10^4     *)
(* limbs, least significant first, no leading zero limb (zero is <<>>).     *)
(* Every intermediate value stays below 2^31.                               *)
(***************************************************************************)
EXTENDS Integers, Sequences, TLC

Base == 10000
RECURSIVE Norm(_)                       \* strip leading zero limbs
Norm(a) == IF a # <<>> /\ a[Len(a)] = 0 THEN Norm(SubSeq(a, 1, Len(a) - 1)) ELSE a
RECURSIVE FromInt(_)
FromInt(x) == IF x = 0 THEN <<>> ELSE <<x % Base>> \o FromInt(x \div Base)
IsNat(a) == \A i \in 1..Len(a) : a[i] \in 0..(Base - 1)
Limb(a, i) == IF i <= Len(a) THEN a[i] ELSE 0
MaxI(x, y) == IF x > y THEN x ELSE y

RECURSIVE AddC(_, _, _, _)
AddC(a, b, i, c) == IF i > MaxI(Len(a), Len(b)) THEN (IF c = 0 THEN <<>> ELSE <<c>>)
                    ELSE LET s == Limb(a, i) + Limb(b, i) + c IN <<s % Base>> \o AddC(a, b, i + 1, s \div Base)
Add(a, b) == Norm(AddC(a, b, 1, 0))

RECURSIVE CmpFrom(_, _, _)              \* -1, 0, 1 ; compare from limb i downwards
CmpFrom(a, b, i) == IF i = 0 THEN 0 ELSE IF Limb(a, i) < Limb(b, i) THEN -1 ELSE IF Limb(a, i) > Limb(b, i) THEN 1 ELSE CmpFrom(a, b, i - 1)
Cmp(a, b) == CmpFrom(a, b, MaxI(Len(a), Len(b)))
Less(a, b) == Cmp(a, b) = -1
Leq(a, b)  == Cmp(a, b) <= 0

RECURSIVE SubC(_, _, _, _)              \* a - b for a >= b
SubC(a, b, i, br) == IF i > Len(a) THEN <<>>
                     ELSE LET d == Limb(a, i) - Limb(b, i) - br IN
                          IF d < 0 THEN <<d + Base>> \o SubC(a, b, i + 1, 1) ELSE <<d>> \o SubC(a, b, i + 1, 0)
Sub(a, b) == Norm(SubC(a, b, 1, 0))

RECURSIVE MulSmallC(_, _, _, _)         \* a * s for 0 <= s < 2^17 (limb * s + carry < 2^31)
MulSmallC(a, s, i, c) == IF i > Len(a) THEN FromInt(c)
                         ELSE LET p == a[i] * s + c IN <<p % Base>> \o MulSmallC(a, s, i + 1, p \div Base)
MulSmall(a, s) == Norm(MulSmallC(a, s, 1, 0))
RECURSIVE MulAcc(_, _, _)               \* a * b = sum over limbs of b
MulAcc(a, b, j) == IF j > Len(b) THEN <<>>
                   ELSE Add(MulSmall(a, b[j]), <<0>> \o MulAcc(a, b, j + 1))
Mul(a, b) == Norm(MulAcc(a, b, 1))

RECURSIVE DivSmallC(_, _, _, _)         \* quotient of a by 1 <= s < 2^17, from the top limb; r = running remainder
DivSmallC(a, s, i, r) == IF i = 0 THEN <<>>
                         ELSE LET cur == r * Base + a[i] IN DivSmallC(a, s, i - 1, cur % s) \o <<cur \div s>>
DivSmall(a, s) == Norm(DivSmallC(a, s, Len(a), 0))
RECURSIVE ModSmallC(_, _, _, _)
ModSmallC(a, s, i, r) == IF i = 0 THEN r ELSE ModSmallC(a, s, i - 1, (r * Base + a[i]) % s)
ModSmall(a, s) == ModSmallC(a, s, Len(a), 0)

(* binomial coefficient C(n, k) for a big n and a small k: the step-by-step product, exact *)
RECURSIVE BinomStep(_, _, _, _)
BinomStep(n, k, i, acc) == IF i > k THEN acc
                           ELSE BinomStep(n, k, i + 1, DivSmall(Mul(acc, Add(Sub(n, FromInt(k)), FromInt(i))), i))
Binom(n, k) == IF k = 0 THEN <<1>> ELSE IF Less(n, FromInt(k)) THEN <<>> ELSE BinomStep(n, k, 1, <<1>>)

Two64  == <<1616, 955, 737, 6744, 1844>>        \* 2^64 = 18446744073709551616
Two63  == <<5808, 5477, 368, 3372, 922>>        \* 2^63 =  9223372036854775808
=============================================================================
