------------------------------ MODULE GraphTheory -----------------------------
(***************************************************************************)
(* C09 / C10 / C11: the definitions of the graph invariants, as set         *)
(* expressions and small recursions over a graph [n, E] (lib/Graphs.tla).   *)
(* Nothing here mirrors the implementation's algorithms.                    *)
(***************************************************************************)
EXTENDS Graphs

(* ---- cliques ---- *)
IsClique(G, S)     == \A a, b \in S : a = b \/ Adj(G, a, b)
Cliques(G)         == { S \in SUBSET Verts(G.n) : IsClique(G, S) }
MaximalCliques(G)  == LET C == Cliques(G) IN { S \in C : ~\E v \in Verts(G.n) \ S : IsClique(G, S \cup {v}) }
CliqueNumber(G)    == Max({ Cardinality(S) : S \in Cliques(G) })
IndependenceNumber(G) == CliqueNumber(ComplementG(G))

(* ---- vertex colourings ---- *)
IsProper(G, f)     == \A e \in G.E : \E a, b \in e : a # b /\ f[a] # f[b]
ProperColourings(G, k) == { f \in [Verts(G.n) -> 0..(k-1)] : IsProper(G, f) }
NumColourings(G, k) == Cardinality(ProperColourings(G, k))
(* k-colourability by depth-first search with first-fit symmetry breaking (usable on larger graphs) *)
RECURSIVE ColourExt(_, _, _, _)
ColourExt(G, k, f, v) ==        \* f: colours of vertices 0..v-1 (a sequence), extend to vertex v
    IF v = G.n THEN TRUE
    ELSE LET used == IF f = <<>> THEN -1 ELSE Max({ f[i] : i \in 1..Len(f) }) IN
         \E c \in 0..Min({k - 1, used + 1}) :
             (\A u \in Nbrs(G, v) : u >= v \/ f[u + 1] # c) /\ ColourExt(G, k, Append(f, c), v + 1)
KColourable(G, k)  == IF G.n = 0 THEN TRUE ELSE k >= 1 /\ ColourExt(G, k, <<>>, 0)
ChromaticNumber(G) == Min({ k \in 0..G.n : KColourable(G, k) })
(* value of an integer polynomial given by its coefficients c[1] + c[2] x + ... *)
RECURSIVE PolyEval(_, _, _)
PolyEval(c, x, i)  == IF i > Len(c) THEN 0 ELSE c[i] + x * PolyEval(c, x, i + 1)
(* first-fit colouring along an order (sequence of all vertices) *)
RECURSIVE FirstFit(_, _, _, _)
FirstFit(G, order, i, col) ==   \* col: function on the vertices coloured so far
    IF i > Len(order) THEN col
    ELSE LET v == order[i]
             taken == { col[u] : u \in Nbrs(G, v) \cap DOMAIN col }
             c == Min((0..G.n) \ taken) IN
         FirstFit(G, order, i + 1, [u \in DOMAIN col \cup {v} |-> IF u = v THEN c ELSE col[u]])
FirstFitColouring(G, order) == FirstFit(G, order, 1, [u \in {} |-> 0])

(* ---- edge colourings ---- *)
EdgeSeq(G)         == SetToSortSeq(G.E, LAMBDA a, b : EdgeRank(a) < EdgeRank(b))
RECURSIVE EdgeColExt(_, _, _, _)
EdgeColExt(es, k, f, i) ==      \* f: colours (1..k) of edges es[1..i-1]
    IF i > Len(es) THEN TRUE
    ELSE LET used == IF f = <<>> THEN 0 ELSE Max({ f[j] : j \in 1..Len(f) }) IN
         \E c \in 1..Min({k, used + 1}) :
             (\A j \in 1..(i-1) : es[j] \cap es[i] = {} \/ f[j] # c) /\ EdgeColExt(es, k, Append(f, c), i + 1)
EdgeKColourable(G, k) == G.E = {} \/ (k >= 1 /\ EdgeColExt(EdgeSeq(G), k, <<>>, 1))
ChromaticIndex(G)  == IF G.E = {} THEN 0 ELSE IF EdgeKColourable(G, MaxDeg(G)) THEN MaxDeg(G) ELSE MaxDeg(G) + 1     \* Vizing

(* ---- degeneracy ---- *)
InducedMinDeg(G, S) == Min({ Cardinality(Nbrs(G, v) \cap S) : v \in S })
Degeneracy(G)      == IF G.n = 0 THEN 0 ELSE Max({ InducedMinDeg(G, S) : S \in (SUBSET Verts(G.n)) \ {{}} })

(* ---- distances ---- *)
RECURSIVE Ball(_, _, _)
Ball(G, S, r)      == IF r = 0 THEN S ELSE Ball(G, S \cup UNION { Nbrs(G, v) : v \in S }, r - 1)     \* vertices within distance r of S
Dist(G, a, b)      == IF b \notin Ball(G, {a}, G.n) THEN -1 ELSE Min({ r \in 0..G.n : b \in Ball(G, {a}, r) })
Component(G, v)    == Ball(G, {v}, G.n)
Components(G)      == { Component(G, v) : v \in Verts(G.n) }
IsConnected(G)     == Cardinality(Components(G)) <= 1
Ecc(G, v)          == Max({ Dist(G, v, u) : u \in Verts(G.n) })
(* ---- cycles and paths, counted through vertex sets ---- *)
Sub(G, S)          == [n |-> G.n, E |-> { e \in G.E : e \subseteq S }]        \* induced on S, same vertex names
DegIn(G, S, v)     == Cardinality(Nbrs(G, v) \cap S)
ConnectedOn(G, S)  == S = {} \/ LET v == CHOOSE x \in S : TRUE IN Ball(Sub(G, S), {v}, Cardinality(S)) \cap S = S
IsInducedCycle(G, S) == Cardinality(S) >= 3 /\ (\A v \in S : DegIn(G, S, v) = 2) /\ ConnectedOn(G, S)
IsInducedPath(G, S)  == S # {} /\ ConnectedOn(G, S) /\ (\A v \in S : DegIn(G, S, v) <= 2)
                        /\ Cardinality({ e \in G.E : e \subseteq S }) = Cardinality(S) - 1
NumInducedCycles(G, L) == Cardinality({ S \in SUBSET Verts(G.n) : Cardinality(S) = L /\ IsInducedCycle(G, S) })
NumInducedPaths(G, L)  == Cardinality({ S \in SUBSET Verts(G.n) : Cardinality(S) = L + 1 /\ IsInducedPath(G, S) })     \* L = number of edges
(* cycles as subgraphs, counted through closed walks: CycWalks(G, s, cur, vis)[L+1] = the number of ways to extend the simple path
   s ... cur (vertex set vis, all other vertices larger than s) to a cycle of length L through s; every cycle is found from its least
   vertex in its two directions *)
ZeroVec(n)         == [k \in 1..(n + 1) |-> 0]
AddVec(a, b)       == [k \in 1..Len(a) |-> a[k] + b[k]]
RECURSIVE CycWalks(_, _, _, _)
CycWalks(G, s, cur, vis) ==
    LET closes == IF Cardinality(vis) >= 3 /\ Adj(G, cur, s) THEN [ZeroVec(G.n) EXCEPT ![Cardinality(vis) + 1] = 1] ELSE ZeroVec(G.n)
        nexts == { u \in Nbrs(G, cur) : u > s /\ u \notin vis } IN
    FoldSet(LAMBDA u, acc : AddVec(acc, CycWalks(G, s, u, vis \cup {u})), closes, nexts)
CycleVec(G)        == LET tot == FoldSet(LAMBDA s, acc : AddVec(acc, CycWalks(G, s, s, {s})), ZeroVec(G.n), Verts(G.n)) IN
                      [k \in 1..(G.n + 1) |-> tot[k] \div 2]                 \* CycleVec(G)[L+1] = number of cycles of length L
NumCycles(G, L)    == CycleVec(G)[L + 1]
Girth(G)           == LET Ls == { L \in 3..G.n : NumInducedCycles(G, L) > 0 } IN IF Ls = {} THEN -1 ELSE Min(Ls)    \* a shortest cycle is induced
(* ---- cut vertices and blocks ---- *)
DelVertex(G, v)       == [n |-> G.n, E |-> { e \in G.E : v \notin e }]
IsCutVertex(G, v)  == \E a, b \in Component(G, v) \ {v} : b \notin Ball(DelVertex(G, v), {a}, G.n)
CutVertices(G)     == { v \in Verts(G.n) : IsCutVertex(G, v) }
(* S induces a connected subgraph without a cut vertex of its own *)
TwoConnOn(G, S)    == ConnectedOn(G, S) /\ \A v \in S : Cardinality(S) <= 2 \/ ConnectedOn(G, S \ {v})
Blocks(G)          == LET cand == { S \in (SUBSET Verts(G.n)) \ {{}} : TwoConnOn(G, S) } IN
                      { S \in cand : ~\E T \in cand : S # T /\ S \subseteq T }

(* ---- planarity (Wagner): no K5 and no K3,3 as a minor <=> some sequence of contractions contains one as a subgraph ---- *)
HasK5Sub(G)        == \E S \in SUBSET Verts(G.n) : Cardinality(S) = 5 /\ IsClique(G, S)
HasK33Sub(G)       == \E A \in SUBSET Verts(G.n) : Cardinality(A) = 3 /\
                         \E B \in SUBSET (Verts(G.n) \ A) : Cardinality(B) = 3 /\ \A a \in A, b \in B : Adj(G, a, b)
ContractE(G, e)    == Contract(G, Min(e), Max(e))
RECURSIVE NonPlanar(_)
NonPlanar(G)       == G.n >= 5 /\ NumEdges(G) >= 9 /\ (HasK5Sub(G) \/ HasK33Sub(G) \/ \E e \in G.E : NonPlanar(ContractE(G, e)))
IsPlanar(G)        == ~NonPlanar(G)
=============================================================================
