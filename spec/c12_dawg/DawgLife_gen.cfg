CONSTANTS
  Alphabet = {97, 98}
  MaxLen = 1
  MaxOuts = 2
INIT LInit
NEXT DumpNext
VIEW View
CHECK_DEADLOCK FALSE
