------------------------------ MODULE DawgCodec -----------------------------
(***************************************************************************)
(* C14.  The byte grammar of Dawg.GobEncode, as a reader written            *)
(* independently of the implementation:                                     *)
(*   stream  ::= U(numNodes) U(id)^numNodes node^numNodes                   *)
(*   node    ::= U(index) U(numWords) byte(final) U(numChildren)            *)
(*               ( byte(label) U(target index) )^numChildren                *)
(*   U(x)    ::= x                                  if x <= 127             *)
(*             | 128+len  big-endian bytes of x     otherwise (len <= 8)    *)
(* The first node record is the root.  Indices refer to the id list.        *)
(***************************************************************************)
EXTENDS Integers, Sequences, FiniteSets, TLC

RECURSIVE BigEndian(_, _, _)
BigEndian(bs, pos, n) == IF n = 0 THEN 0 ELSE BigEndian(bs, pos, n - 1) * 256 + bs[pos + n - 1]
(* [ok, v, next] *)
ParseU(bs, pos) ==
    IF pos > Len(bs) THEN [ok |-> FALSE, v |-> 0, next |-> pos]
    ELSE IF bs[pos] <= 127 THEN [ok |-> TRUE, v |-> bs[pos], next |-> pos + 1]
    ELSE LET n == bs[pos] - 128 IN
         IF n > 4 \/ n < 1 \/ pos + n > Len(bs) \/ (n = 4 /\ bs[pos + 1] > 127) THEN [ok |-> FALSE, v |-> 0, next |-> pos]      \* values below 2^31 only (TLC integers are 32 bit)
         ELSE [ok |-> TRUE, v |-> BigEndian(bs, pos + 1, n), next |-> pos + n + 1]
RECURSIVE NBytes(_)
NBytes(x) == IF x < 256 THEN 1 ELSE 1 + NBytes(x \div 256)
RECURSIVE BytesOf(_, _)
BytesOf(x, n) == IF n = 0 THEN <<>> ELSE BytesOf(x \div 256, n - 1) \o <<x % 256>>
EncU(x) == IF x <= 127 THEN <<x>> ELSE <<128 + NBytes(x)>> \o BytesOf(x, NBytes(x))

RECURSIVE ParseUs(_, _, _, _)          \* k unsigned values -> [ok, vs, next]
ParseUs(bs, pos, k, acc) ==
    IF k > Len(bs) THEN [ok |-> FALSE, vs |-> acc, next |-> pos]          \* more items announced than bytes exist
    ELSE IF k = 0 THEN [ok |-> TRUE, vs |-> acc, next |-> pos]
    ELSE LET u == ParseU(bs, pos) IN
         IF ~u.ok THEN [ok |-> FALSE, vs |-> acc, next |-> pos] ELSE ParseUs(bs, u.next, k - 1, Append(acc, u.v))

RECURSIVE ParseKids(_, _, _, _, _)     \* k (label, target index) pairs
ParseKids(bs, pos, k, ls, ts) ==
    IF k > Len(bs) THEN [ok |-> FALSE, labels |-> ls, targets |-> ts, next |-> pos]
    ELSE IF k = 0 THEN [ok |-> TRUE, labels |-> ls, targets |-> ts, next |-> pos]
    ELSE IF pos > Len(bs) THEN [ok |-> FALSE, labels |-> ls, targets |-> ts, next |-> pos]
    ELSE LET t == ParseU(bs, pos + 1) IN
         IF ~t.ok THEN [ok |-> FALSE, labels |-> ls, targets |-> ts, next |-> pos]
         ELSE ParseKids(bs, t.next, k - 1, Append(ls, bs[pos]), Append(ts, t.v))

RECURSIVE ParseNodes(_, _, _, _, _)    \* k node records; ids = the id list
ParseNodes(bs, pos, k, ids, acc) ==
    IF k > Len(bs) THEN [ok |-> FALSE, nodes |-> acc, next |-> pos]
    ELSE IF k = 0 THEN [ok |-> TRUE, nodes |-> acc, next |-> pos]
    ELSE LET h == ParseUs(bs, pos, 2, <<>>) IN
         IF ~h.ok \/ h.next > Len(bs) THEN [ok |-> FALSE, nodes |-> acc, next |-> pos]
         ELSE LET fin == bs[h.next]
                  nc == ParseU(bs, h.next + 1) IN
              IF ~nc.ok \/ h.vs[1] + 1 > Len(ids) THEN [ok |-> FALSE, nodes |-> acc, next |-> pos]
              ELSE LET kids == ParseKids(bs, nc.next, nc.v, <<>>, <<>>) IN
                   IF ~kids.ok \/ \E i \in 1..Len(kids.targets) : kids.targets[i] + 1 > Len(ids)
                   THEN [ok |-> FALSE, nodes |-> acc, next |-> pos]
                   ELSE ParseNodes(bs, kids.next, k - 1, ids,
                          Append(acc, [id |-> ids[h.vs[1] + 1], final |-> fin # 0, numWords |-> h.vs[2],
                                       labels |-> kids.labels,
                                       targets |-> [i \in 1..Len(kids.targets) |-> ids[kids.targets[i] + 1]]]))

(* the whole stream -> [ok, nodes] ; ok requires that every byte is consumed *)
ParseDawg(bs) ==
    LET n == ParseU(bs, 1) IN
    IF ~n.ok THEN [ok |-> FALSE, nodes |-> <<>>]
    ELSE LET ids == ParseUs(bs, n.next, n.v, <<>>) IN
         IF ~ids.ok THEN [ok |-> FALSE, nodes |-> <<>>]
         ELSE LET r == ParseNodes(bs, ids.next, n.v, ids.vs, <<>>) IN
              [ok |-> r.ok /\ r.next = Len(bs) + 1, nodes |-> r.nodes]

(* self-consistency of the varint rule on the boundary values *)
Boundary == {0, 1, 127, 128, 129, 255, 256, 257, 65535, 65536, 65537, 16777215, 16777216, 2147483647}
ASSUME \A x \in Boundary : LET p == ParseU(EncU(x), 1) IN p.ok /\ p.v = x /\ p.next = Len(EncU(x)) + 1
ASSUME \A x \in Boundary : Len(EncU(x)) = IF x <= 127 THEN 1 ELSE 1 + NBytes(x)
=============================================================================
