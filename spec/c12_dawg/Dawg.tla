-------------------------------- MODULE Dawg --------------------------------
(***************************************************************************)
(* C12-C14, abstract level.  Words are sequences of byte values.            *)
(*  - the Builder protocol: Add(w) is accepted iff w is greater (bytewise   *)
(*    lexicographic order) than the last ACCEPTED word; a rejected Add      *)
(*    changes nothing; Finish yields the index of the accepted set;         *)
(*  - the definitions an index of a word set W must satisfy: membership,    *)
(*    rank, number of words, and the size of the minimal deterministic      *)
(*    acyclic automaton (number of distinct right languages);               *)
(*  - what it means for a concrete node table to be a correct index of W.   *)
(***************************************************************************)
EXTENDS Integers, Sequences, FiniteSets, FiniteSetsExt, SequencesExt, TLC

SeqSet(s)      == { s[i] : i \in 1..Len(s) }
FirstDiff(a, b) == LET D == { i \in 1..Min({Len(a), Len(b)}) : a[i] # b[i] } IN IF D = {} THEN 0 ELSE Min(D)
LexLess(a, b)  == LET d == FirstDiff(a, b) IN IF d = 0 THEN Len(a) < Len(b) ELSE a[d] < b[d]
IsPrefixOf(p, w) == Len(p) <= Len(w) /\ SubSeq(w, 1, Len(p)) = p
PrefixesOf(W)  == UNION { { SubSeq(w, 1, k) : k \in 0..Len(w) } : w \in W } \cup { <<>> }
RightLang(W, p) == { SubSeq(w, Len(p) + 1, Len(w)) : w \in { v \in W : IsPrefixOf(p, v) } }
Rank(W, w)     == Cardinality({ v \in W : LexLess(v, w) })
MinimalNodes(W) == Cardinality({ RightLang(W, p) : p \in PrefixesOf(W) })
SortedWords(W) == SetToSortSeq(W, LexLess)

(* ---- builder protocol ---- *)
CONSTANTS Alphabet, MaxLen
WordsUpTo(k)   == UNION { [1..m -> Alphabet] : m \in 0..k }
Words          == WordsUpTo(MaxLen)

VARIABLES acc,        \* sequence of accepted words (strictly increasing)
          act         \* last action [op, w, err] - output only
vars == <<acc, act>>

Accepts(a, w)  == a = <<>> \/ LexLess(a[Len(a)], w)
AddEff(a, w)   == IF Accepts(a, w) THEN Append(a, w) ELSE a

Init == acc = <<>> /\ act = [op |-> "New", w |-> <<>>, err |-> FALSE]
Add(w) == acc' = AddEff(acc, w) /\ act' = [op |-> "Add", w |-> w, err |-> ~Accepts(acc, w)]
Next == \E w \in Words : Add(w)
Spec == Init /\ [][Next]_vars

StrictlyIncreasing == \A i \in 1..(Len(acc) - 1) : LexLess(acc[i], acc[i+1])
RejectedIsStutter  == [][act'.err => acc' = acc]_vars

(* ---- a concrete automaton (node table) is a correct index of W ---- *)
(* nodes: sequence of [id, final, numWords, labels, targets]; the first node is the root; targets are ids *)
NodeById(nodes, id) == nodes[CHOOSE i \in 1..Len(nodes) : nodes[i].id = id]
RECURSIVE LangFrom(_, _)
LangFrom(nodes, id) == LET nd == NodeById(nodes, id) IN
    (IF nd.final THEN { <<>> } ELSE {}) \cup
    UNION { { <<nd.labels[k]>> \o s : s \in LangFrom(nodes, nd.targets[k]) } : k \in 1..Len(nd.labels) }
TableWhy(nodes, W) ==
    IF Len(nodes) = 0 THEN "no nodes"
    ELSE IF Cardinality({ nodes[i].id : i \in 1..Len(nodes) }) # Len(nodes) THEN "node ids not unique"
    ELSE IF \E i \in 1..Len(nodes) : Len(nodes[i].labels) # Len(nodes[i].targets)
                                     \/ Cardinality(SeqSet(nodes[i].labels)) # Len(nodes[i].labels) THEN "node with repeated labels"
    ELSE IF \E i \in 1..Len(nodes) : \E k \in 1..Len(nodes[i].targets) :
                 nodes[i].targets[k] \notin { nodes[j].id : j \in 1..Len(nodes) } THEN "link to an unknown node"
    ELSE IF LangFrom(nodes, nodes[1].id) # W THEN "automaton does not accept exactly the word set"
    ELSE IF Len(nodes) # MinimalNodes(W) THEN "automaton is not minimal"
    ELSE IF \E i \in 1..Len(nodes) : nodes[i].numWords # Cardinality(LangFrom(nodes, nodes[i].id)) THEN "numWords of a node is not the size of its right language"
    ELSE ""
=============================================================================
