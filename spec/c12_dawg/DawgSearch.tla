------------------------------ MODULE DawgSearch ----------------------------
(* C13: Search as a state machine over the definitions and searcher machines  *)
(* of DawgSearchDefs (see there for the description of the design properties). *)
EXTENDS DawgSearchDefs

(* ---- Search as a state machine ---- *)
CONSTANTS WordSets, SearcherLists
VARIABLES acc,      \* the word list (sorted)
          ss,       \* the searcher descriptors
          sst,      \* their states
          path,     \* current prefix
          todo,     \* stack: for every prefix on the path, the labels still to try (ascending)
          saved,    \* stack of searcher states saved at each Step (history variable for BackRestores)
          index,    \* rank counter
          sol, ids, \* results
          phase     \* "visit" | "walk" | "done"
vars == <<acc, ss, sst, path, todo, saved, index, sol, ids, phase>>

W == SeqSet(acc)
Labels(p) == SetToSortSeq({ w[Len(p) + 1] : w \in { v \in W : IsPrefixOf(p, v) /\ Len(v) > Len(p) } }, <)
Below(p)  == Cardinality({ v \in W : IsPrefixOf(p, v) })

Init == /\ acc \in WordSets /\ ss \in SearcherLists
        /\ sst = [i \in 1..Len(ss) |-> SInit(ss[i])]
        /\ path = <<>> /\ todo = << >> /\ saved = <<>> /\ index = -1 /\ sol = <<>> /\ ids = <<>> /\ phase = "visit"

(* arriving at the node of `path`: count the word that ends here, report it if every searcher allows it *)
Visit == /\ phase = "visit"
         /\ LET here == path \in W
                ok == here /\ \A i \in 1..Len(ss) : SAllowWord(ss[i], sst[i]) IN
            /\ index' = IF here THEN index + 1 ELSE index
            /\ sol' = IF ok THEN Append(sol, path) ELSE sol
            /\ ids' = IF ok THEN Append(ids, index + 1) ELSE ids
         /\ todo' = Append(todo, Labels(path)) /\ phase' = "walk"
         /\ UNCHANGED <<acc, ss, sst, path, saved>>
(* try the next label of the current node *)
Try == /\ phase = "walk" /\ todo # <<>> /\ todo[Len(todo)] # <<>>
       /\ LET b == Head(todo[Len(todo)])
              allow == \A i \in 1..Len(ss) : SAllowStep(ss[i], sst[i], b) IN
          /\ todo' = [todo EXCEPT ![Len(todo)] = Tail(@)]
          /\ IF allow
             THEN /\ saved' = Append(saved, sst)
                  /\ sst' = [i \in 1..Len(ss) |-> SStep(ss[i], sst[i], b)]
                  /\ path' = Append(path, b) /\ phase' = "visit" /\ UNCHANGED index
             ELSE /\ index' = index + Below(Append(path, b)) /\ UNCHANGED <<saved, sst, path, phase>>
       /\ UNCHANGED <<acc, ss, sol, ids>>
(* all labels tried: go back *)
Back == /\ phase = "walk" /\ todo # <<>> /\ todo[Len(todo)] = <<>>
        /\ todo' = SubSeq(todo, 1, Len(todo) - 1)
        /\ IF path = <<>> THEN phase' = "done" /\ UNCHANGED <<path, sst, saved>>
           ELSE /\ path' = SubSeq(path, 1, Len(path) - 1)
                /\ sst' = [i \in 1..Len(ss) |-> SBack(ss[i], sst[i])]
                /\ saved' = SubSeq(saved, 1, Len(saved) - 1) /\ UNCHANGED phase
        /\ UNCHANGED <<acc, ss, index, sol, ids>>
Next == Visit \/ Try \/ Back
Spec == Init /\ [][Next]_vars

(* ---- design properties ---- *)
ResultOK      == phase = "done" => sol = WantSol(acc, ss) /\ ids = WantIds(acc, ss)
FinalStateOK  == phase = "done" => sst = [i \in 1..Len(ss) |-> SInit(ss[i])] /\ saved = <<>>
BackRestores  == [][ (phase = "walk" /\ todo # <<>> /\ todo[Len(todo)] = <<>> /\ path # <<>>) => sst' = saved[Len(saved)] ]_vars
RanksInRange  == index < Len(acc) /\ Len(sol) = Len(ids)
=============================================================================
