------------------------------ MODULE DawgSearchDefs ------------------------
(***************************************************************************)
(* C13.  Searching a DAWG.                                                  *)
(*  - what it means for a word to match a pattern / an anagram / several    *)
(*    searchers (definitions);                                              *)
(*  - the two library searchers as state machines behind the Searcher       *)
(*    protocol (AllowStep / Step / Backstep / AllowWord);                   *)
(*  - Search as a depth-first walk of the trie of the word set in label     *)
(*    order that drives the searchers and counts ranks, including the       *)
(*    words of refused sub-tries.                                           *)
(* Design properties (TLC, all word sets x searcher lists in the bound):    *)
(* the walk returns exactly the matching words in lexicographic order with  *)
(* their ranks; every Backstep restores exactly the searcher state before   *)
(* the matching Step; at the end every searcher is in its initial state.    *)
(* A searcher descriptor is [kind |-> "pattern"|"anagram", arg, blank].     *)
(***************************************************************************)
EXTENDS Integers, Sequences, FiniteSets, FiniteSetsExt, SequencesExt, TLC

SeqSet(s)      == { s[i] : i \in 1..Len(s) }
FirstDiff(a, b) == LET D == { i \in 1..Min({Len(a), Len(b)}) : a[i] # b[i] } IN IF D = {} THEN 0 ELSE Min(D)
LexLess(a, b)  == LET d == FirstDiff(a, b) IN IF d = 0 THEN Len(a) < Len(b) ELSE a[d] < b[d]
IsPrefixOf(p, w) == Len(p) <= Len(w) /\ SubSeq(w, 1, Len(p)) = p
Count(s, v)    == Cardinality({ i \in 1..Len(s) : s[i] = v })

(* ---- definitions ---- *)
PatternMatch(w, s) == Len(w) = Len(s.arg) /\ \A i \in 1..Len(w) : s.arg[i] = s.blank \/ s.arg[i] = w[i]
(* letters of the anagram that are not the blank byte are letters; every other position is a wildcard *)
NonBlank(s, c)     == IF c = s.blank THEN 0 ELSE Count(s.arg, c)
Blanks(s)          == Count(s.arg, s.blank)
Deficit(w, s)      == FoldSet(LAMBDA c, acc : acc + (IF Count(w, c) > NonBlank(s, c) THEN Count(w, c) - NonBlank(s, c) ELSE 0), 0, SeqSet(w))
AnagramMatch(w, s) == Len(w) = Len(s.arg) /\ Deficit(w, s) <= Blanks(s)
Match1(w, s)       == IF s.kind = "pattern" THEN PatternMatch(w, s) ELSE AnagramMatch(w, s)
Matches(w, ss)     == \A i \in 1..Len(ss) : Match1(w, ss[i])
(* acc: the stored words as a strictly increasing sequence *)
WantIdx(acc, ss)   == { i \in 1..Len(acc) : Matches(acc[i], ss) }
WantSol(acc, ss)   == LET I == SetToSortSeq(WantIdx(acc, ss), <) IN [k \in 1..Len(I) |-> acc[I[k]]]
WantIds(acc, ss)   == LET I == SetToSortSeq(WantIdx(acc, ss), <) IN [k \in 1..Len(I) |-> I[k] - 1]

(* ---- the searchers as state machines ---- *)
(* pattern: [i] ; anagram: [used: sequence of "letter"/"blank" markers with the letter] *)
SInit(s)           == IF s.kind = "pattern" THEN [i |-> 0, used |-> <<>>] ELSE [i |-> 0, used |-> <<>>]
LettersLeft(s, st, c) == NonBlank(s, c) - Cardinality({ k \in 1..Len(st.used) : st.used[k] = <<"l", c>> })
BlanksLeft(s, st)  == Blanks(s) - Cardinality({ k \in 1..Len(st.used) : st.used[k][1] = "b" })
SAllowStep(s, st, b) == IF s.kind = "pattern" THEN st.i < Len(s.arg) /\ (s.arg[st.i + 1] = s.blank \/ s.arg[st.i + 1] = b)
                        ELSE Len(st.used) < Len(s.arg) /\ (BlanksLeft(s, st) > 0 \/ LettersLeft(s, st, b) > 0)
SStep(s, st, b)    == IF s.kind = "pattern" THEN [st EXCEPT !.i = @ + 1]
                      ELSE IF LettersLeft(s, st, b) > 0 THEN [st EXCEPT !.used = Append(@, <<"l", b>>)]
                      ELSE [st EXCEPT !.used = Append(@, <<"b", b>>)]
SBack(s, st)       == IF s.kind = "pattern" THEN [st EXCEPT !.i = @ - 1] ELSE [st EXCEPT !.used = SubSeq(@, 1, Len(@) - 1)]
SAllowWord(s, st)  == IF s.kind = "pattern" THEN st.i = Len(s.arg) ELSE Len(st.used) = Len(s.arg)

(* ---- judgement of a recorded search (used by DawgTrace) ---- *)
(* the recorded protocol calls of every searcher must be answered as the specified searcher answers them *)
RECURSIVE ProtoWhy(_, _, _)
ProtoWhy(s, calls, st) ==
    IF calls = <<>> THEN (IF st = SInit(s) THEN "" ELSE "searcher not back in its initial state after the search")
    ELSE LET c == Head(calls) IN
         IF c.op = "A" THEN (IF c.r # SAllowStep(s, st, c.b) THEN "AllowStep answered differently from the specified searcher" ELSE ProtoWhy(s, Tail(calls), st))
         ELSE IF c.op = "W" THEN (IF c.r # SAllowWord(s, st) THEN "AllowWord answered differently from the specified searcher" ELSE ProtoWhy(s, Tail(calls), st))
         ELSE IF c.op = "S" THEN (IF ~SAllowStep(s, st, c.b) THEN "Step taken although the searcher does not allow it" ELSE ProtoWhy(s, Tail(calls), SStep(s, st, c.b)))
         ELSE IF c.op = "B" THEN (IF (s.kind = "pattern" /\ st.i = 0) \/ (s.kind = "anagram" /\ st.used = <<>>) THEN "Backstep without a matching Step" ELSE ProtoWhy(s, Tail(calls), SBack(s, st)))
         ELSE ProtoWhy(s, Tail(calls), st)

JudgeSearch(a, e) ==
    IF e.res # "ok" THEN e.res
    ELSE IF e.sol # WantSol(a, e.srch) THEN "Search did not return exactly the matching words in lexicographic order"
    ELSE IF e.ids # WantIds(a, e.srch) THEN "Search returned wrong ranks"
    ELSE IF e.sol2 # e.sol \/ e.ids2 # e.ids THEN "repeating the search with the same searchers gives a different result"
    ELSE IF ~e.dawg_same THEN "the search changed the Dawg"
    ELSE IF ~e.args_same THEN "a searcher changed the byte slice it was constructed from"
    ELSE IF \E i \in 1..Len(e.proto) : ProtoWhy(e.srch[i], e.proto[i], SInit(e.srch[i])) # ""
         THEN ProtoWhy(e.srch[CHOOSE i \in 1..Len(e.proto) : ProtoWhy(e.srch[i], e.proto[i], SInit(e.srch[i])) # ""],
                       e.proto[CHOOSE i \in 1..Len(e.proto) : ProtoWhy(e.srch[i], e.proto[i], SInit(e.srch[i])) # ""],
                       SInit(e.srch[CHOOSE i \in 1..Len(e.proto) : ProtoWhy(e.srch[i], e.proto[i], SInit(e.srch[i])) # ""]))
    ELSE ""
=============================================================================
