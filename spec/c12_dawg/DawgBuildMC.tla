----------------------------- MODULE DawgBuildMC ----------------------------
EXTENDS DawgBuild, Json
View == acc
J(a) == [acc |-> a, words |-> Len(a), nodes |-> MinimalNodes(SeqSet(a))]
DumpNext == BNext /\ PrintT(<<"T", ToJson([f |-> J(acc), a |-> act', t |-> J(acc')])>>)
=============================================================================
