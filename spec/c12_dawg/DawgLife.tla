------------------------------ MODULE DawgLife ------------------------------
(***************************************************************************)
(* The life cycle of a dawg.Builder as documented: "Words must be added in  *)
(* strictly increasing order ... words cannot be added to a builder that    *)
(* has already finished", "No further modifications may be made to the dawg *)
(* and finish can only be called once", "Initialise sets up the internal    *)
(* state ready for use".                                                    *)
(*   Add(w)      rejected after Finish; otherwise the protocol of Dawg.tla  *)
(*   Finish      returns the index of the accepted words; a second Finish   *)
(*               is an error                                                *)
(*   Initialise  a fresh builder: nothing accepted, not finished, no last   *)
(*               word remembered                                            *)
(* outs is the history of returned indexes: what a returned Dawg stands for *)
(* never changes afterwards, whatever is done to the builder.               *)
(***************************************************************************)
EXTENDS Dawg
CONSTANT MaxOuts
VARIABLES done, outs
lvars == <<acc, act, done, outs>>

LInit == Init /\ done = FALSE /\ outs = <<>>
LAdd(w) == IF done THEN act' = [op |-> "Add", w |-> w, err |-> TRUE] /\ UNCHANGED <<acc, done, outs>>
           ELSE Add(w) /\ UNCHANGED <<done, outs>>
LFinish == IF done THEN act' = [op |-> "Finish", w |-> <<>>, err |-> TRUE] /\ UNCHANGED <<acc, done, outs>>
           ELSE /\ Len(outs) < MaxOuts
                /\ act' = [op |-> "Finish", w |-> <<>>, err |-> FALSE] /\ done' = TRUE /\ outs' = Append(outs, acc) /\ UNCHANGED acc
LInitialise == acc' = <<>> /\ done' = FALSE /\ act' = [op |-> "Initialise", w |-> <<>>, err |-> FALSE] /\ UNCHANGED outs
LNext == (\E w \in Words : LAdd(w)) \/ LFinish \/ LInitialise
LSpec == LInit /\ [][LNext]_lvars

ReturnedIndexIsFrozen == [][\A k \in 1..Len(outs) : outs'[k] = outs[k]]_lvars
FinishedRejects       == [][done /\ done' => acc' = acc /\ act'.err]_lvars
OnlyInitialiseReopens == [][done /\ ~done' => act'.op = "Initialise" /\ acc' = <<>>]_lvars
LStrictlyIncreasing   == StrictlyIncreasing /\ \A k \in 1..Len(outs) : \A i \in 1..(Len(outs[k]) - 1) : LexLess(outs[k][i], outs[k][i+1])
LastReturnedIsCurrent == done => outs # <<>> /\ outs[Len(outs)] = acc
=============================================================================
