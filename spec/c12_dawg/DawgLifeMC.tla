----------------------------- MODULE DawgLifeMC -----------------------------
EXTENDS DawgLife, Json
View == <<acc, done, outs>>
J(a, d, o) == [acc |-> a, done |-> d, outs |-> o]
DumpNext == LNext /\ PrintT(<<"L", ToJson([f |-> J(acc, done, outs), a |-> act', t |-> J(acc', done', outs')])>>)
=============================================================================
