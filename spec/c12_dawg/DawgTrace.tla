------------------------------ MODULE DawgTrace -----------------------------
(***************************************************************************)
(* C12 / C13 / C14, code -> spec.  One segment = one Builder lifetime.      *)
(* The monitor keeps the Builder protocol state of Dawg.tla (acc) and       *)
(* judges: every Add's error against Accepts; at Finish the word count and  *)
(* the node table (language, minimality, numWords) against the definitions; *)
(* every Lookup against membership and Rank; searches against DawgSearch;   *)
(* serialisation against the grammar reader of DawgCodec.                   *)
(***************************************************************************)
EXTENDS Dawg, TraceLib
Codec  == INSTANCE DawgCodec
Search == INSTANCE DawgSearchDefs

VARIABLES l, dead, bad, st, fin,  \* fin: the builder of this segment has finished (DawgLife.tla: done)
          outs                    \* the accepted words at each successful Finish of this segment (DawgLife.tla: outs)
Ev == Trace[l]
W == SeqSet(acc)

(* index of w in the sorted sequence acc, 0 if absent; acc is strictly increasing *)
IndexOf(w) == IF \E i \in 1..Len(acc) : acc[i] = w THEN CHOOSE i \in 1..Len(acc) : acc[i] = w ELSE 0

JudgeFinish(e) ==
    IF e.res # "ok" THEN e.res
    ELSE IF e.err THEN "Finish returned an error"
    ELSE IF e.nwords # Len(acc) THEN "NumberOfWords is not the number of accepted words"
    ELSE IF ~e.table THEN ""
    ELSE TableWhy(e.nodes, W)

JudgeLookup(e) ==
    LET i == IndexOf(e.w) IN
    IF e.res # "ok" THEN e.res
    ELSE IF i = 0 THEN (IF e.ok THEN "Lookup found a word that was never added" ELSE "")
    ELSE IF ~e.ok THEN "Lookup missed a stored word"
    ELSE IF e.id # i - 1 THEN "Lookup returned a wrong rank"
    ELSE ""

SameTable(a, b) == a = b
JudgeGob(e) ==
    IF e.res # "ok" THEN e.res
    ELSE IF e.enc_err # "" THEN "GobEncode failed: " \o e.enc_err
    ELSE IF e.dec_err # "" THEN "GobDecode rejects the encoding: " \o e.dec_err
    ELSE IF e.enc2_err # "" \/ e.gob_err # "" THEN "re-encoding / encoding/gob failed: " \o e.enc2_err \o e.gob_err
    ELSE IF e.nodes2 # e.nodes1 THEN "decoded automaton differs (nodes, ids, numWords, links)"
    ELSE IF e.nodes3 # e.nodes1 THEN "automaton decoded through encoding/gob differs"
    ELSE IF e.dec4_err # "" \/ e.nodes4 # e.nodes1 THEN "decoding into a Dawg that already held another automaton does not replace its contents"
    ELSE IF ~e.same4 THEN "a Dawg that was encoded, then overwritten by GobDecode, encodes to different bytes than the automaton it now holds"
    ELSE IF e.nwords2 # Len(acc) THEN "decoded NumberOfWords differs"
    ELSE IF ~e.same_bytes THEN "encoding the decoded automaton gives different bytes"
    ELSE IF ~e.b1_stable THEN "the bytes returned by GobEncode changed when other automata were encoded afterwards (the result shares memory with later calls)"
    ELSE IF \E k \in 1..Len(e.lookups2) : LET q == e.lookups2[k]  i == IndexOf(q.w) IN (q.ok # (i # 0)) \/ (q.ok /\ q.id # i - 1)
         THEN "Lookup on the decoded automaton is wrong"
    ELSE ""
(* The byte layout itself is not part of the property (a layout changed consistently in encoder and decoder keeps every statement of   *)
(* C14 true), so the independent grammar reader of DawgCodec.tla gives no verdict: it only counts, for the evidence file, how many     *)
(* streams parse to a correct index of the word set under the layout of the pinned tree.                                                *)
GrammarAgrees(e) == e.res = "ok" /\ e.enc_err = "" /\ e.b1 # <<>> /\
                    LET p == Codec!ParseDawg(e.b1) IN p.ok /\ (Len(p.nodes) = 0 \/ Len(p.nodes) > 400 \/ TableWhy(p.nodes, W) = "")

TInit == l = 1 /\ acc = <<>> /\ act = [op |-> "New", w |-> <<>>, err |-> FALSE] /\ dead = FALSE /\ bad = <<>> /\ fin = FALSE /\ outs = <<>>
         /\ st = [segs |-> 0, adds |-> 0, rejected |-> 0, finishes |-> 0, tables |-> 0, lookups |-> 0, hits |-> 0,
                  searches |-> 0, matches |-> 0, gobs |-> 0, parsed |-> 0, nontrivial |-> 0, inits |-> 0, olds |-> 0]

Flag(why) == /\ dead' = (why # "")
             /\ bad' = IF why = "" THEN bad ELSE Note(bad, [seg |-> Ev.seg, l |-> l, why |-> why \o " [" \o Ev.ev \o "]"])
SharesSuffixAndPrefix ==       \* non-triviality rule of DESIGN 2.4
    /\ \E i, j \in 1..Len(acc) : i # j /\ Len(acc[i]) > 0 /\ Len(acc[j]) > 0 /\ acc[i][Len(acc[i])] = acc[j][Len(acc[j])]
    /\ \E i, j \in 1..Len(acc) : i # j /\ Len(acc[i]) > 0 /\ Len(acc[j]) > 0 /\ acc[i][1] = acc[j][1]

TStep ==
    /\ l <= NEvents /\ l' = l + 1
    /\ IF Ev.ev = "Reset"
       THEN /\ acc' = <<>> /\ dead' = FALSE /\ bad' = bad /\ fin' = FALSE /\ outs' = <<>> /\ UNCHANGED act
            /\ st' = [st EXCEPT !.segs = @ + 1]
       ELSE IF dead THEN UNCHANGED <<acc, act, dead, bad, st, fin, outs>>
       ELSE IF Ev.ev = "Add"                                            \* DawgLife!LAdd
       THEN LET want == fin \/ ~Accepts(acc, Ev.w)
                why == IF Ev.res # "ok" THEN Ev.res
                       ELSE IF Ev.err # want THEN (IF fin THEN "an Add after Finish was accepted"
                                                   ELSE IF want THEN "an out-of-order or duplicate Add was accepted" ELSE "a correctly ordered Add was rejected")
                       ELSE "" IN
            /\ Flag(why) /\ acc' = (IF fin THEN acc ELSE AddEff(acc, Ev.w)) /\ act' = [op |-> "Add", w |-> Ev.w, err |-> want] /\ UNCHANGED <<fin, outs>>
            /\ st' = [st EXCEPT !.adds = @ + 1, !.rejected = @ + (IF want THEN 1 ELSE 0)]
       ELSE IF Ev.ev = "Finish" /\ fin                                  \* DawgLife!LFinish on a finished builder
       THEN /\ Flag(IF Ev.res # "ok" THEN Ev.res ELSE IF ~Ev.err THEN "a second Finish did not return an error" ELSE "")
            /\ UNCHANGED <<acc, act, fin, outs>> /\ st' = [st EXCEPT !.finishes = @ + 1]
       ELSE IF Ev.ev = "Finish"
       THEN /\ Flag(JudgeFinish(Ev)) /\ fin' = TRUE /\ outs' = Append(outs, acc) /\ UNCHANGED <<acc, act>>
            /\ st' = [st EXCEPT !.finishes = @ + 1, !.tables = @ + (IF Ev.table THEN 1 ELSE 0),
                                !.nontrivial = @ + (IF SharesSuffixAndPrefix THEN 1 ELSE 0)]
       ELSE IF Ev.ev = "Init"                                           \* DawgLife!LInitialise
       THEN /\ Flag(IF Ev.res # "ok" THEN Ev.res ELSE "") /\ acc' = <<>> /\ fin' = FALSE /\ UNCHANGED <<act, outs>>
            /\ st' = [st EXCEPT !.inits = @ + 1]
       ELSE IF Ev.ev = "Old"                                            \* DawgLife!ReturnedIndexIsFrozen: the k-th returned Dawg, looked at again later
       THEN /\ Flag(IF Ev.res # "ok" THEN Ev.res
                    ELSE IF Ev.k < 1 \/ Ev.k > Len(outs) THEN "harness: snapshot of a Dawg that was never returned"
                    ELSE IF Ev.nwords # Len(outs[Ev.k]) THEN "a Dawg returned by Finish changed afterwards (NumberOfWords)"
                    ELSE IF TableWhy(Ev.nodes, SeqSet(outs[Ev.k])) # "" THEN "a Dawg returned by Finish changed afterwards: " \o TableWhy(Ev.nodes, SeqSet(outs[Ev.k]))
                    ELSE "")
            /\ UNCHANGED <<acc, act, fin, outs>> /\ st' = [st EXCEPT !.olds = @ + 1]
       ELSE IF Ev.ev = "Lookup"
       THEN /\ Flag(JudgeLookup(Ev)) /\ UNCHANGED <<acc, act, fin, outs>>
            /\ st' = [st EXCEPT !.lookups = @ + 1, !.hits = @ + (IF Ev.ok THEN 1 ELSE 0)]
       ELSE IF Ev.ev = "Search"
       THEN /\ Flag(Search!JudgeSearch(acc, Ev)) /\ UNCHANGED <<acc, act, fin, outs>>
            /\ st' = [st EXCEPT !.searches = @ + 1, !.matches = @ + Len(Ev.sol)]
       ELSE /\ Flag(JudgeGob(Ev)) /\ UNCHANGED <<acc, act, fin, outs>>
            /\ st' = [st EXCEPT !.gobs = @ + 1, !.parsed = @ + (IF GrammarAgrees(Ev) THEN 1 ELSE 0)]

Report == ReportLine(l, [bad |-> bad, st |-> st, events |-> NEvents])
ProtocolOK == \A i \in 1..(Len(acc) - 1) : LexLess(acc[i], acc[i+1])
=============================================================================
