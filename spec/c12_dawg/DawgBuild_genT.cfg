CONSTANTS
  Alphabet = {97, 98}
  MaxLen = 3
INIT BInit
NEXT DumpNext
VIEW View
CHECK_DEADLOCK FALSE
