CONSTANTS
  Alphabet = {}
  MaxLen = 0
INIT TInit
NEXT TStep
INVARIANTS Report ProtocolOK
CHECK_DEADLOCK FALSE
