CONSTANTS
  Alphabet = {97, 98}
  MaxLen = 1
  MaxOuts = 2
INIT LInit
NEXT LNext
VIEW View
INVARIANTS LStrictlyIncreasing LastReturnedIsCurrent
PROPERTIES ReturnedIndexIsFrozen FinishedRejects OnlyInitialiseReopens RejectedIsStutter
CHECK_DEADLOCK FALSE
