CONSTANTS
  Alphabet = {97, 98, 99}
  MaxLen = 2
INIT BInit
NEXT DumpNext
VIEW View
CHECK_DEADLOCK FALSE
