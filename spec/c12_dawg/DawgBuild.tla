------------------------------ MODULE DawgBuild -----------------------------
(***************************************************************************)
(* C12, implementation level: the incremental minimisation of dawg.Builder  *)
(* (Daciuk et al. for sorted input) as the code performs it:                *)
(*   Add(w): order check; walk the longest existing path of w from the      *)
(*           root, incrementing numWords of every node visited; if the node *)
(*           reached has children, replaceOrRegister it; append the suffix  *)
(*           as fresh nodes (numWords 1), mark the last one final.          *)
(*   replaceOrRegister(t): recursively for the last child c of t (if c has  *)
(*           children), then replace c by an equivalent registered node     *)
(*           (same final flag, same labels, same target nodes) or register  *)
(*           it.                                                            *)
(*   Finish: replaceOrRegister(root) (when the root has children).          *)
(* TLC checks that this refines the Builder protocol of Dawg.tla and that   *)
(* in every reachable state the automaton accepts exactly the accepted      *)
(* words, numWords is the size of every node's right language, and the      *)
(* finished automaton is minimal.                                           *)
(***************************************************************************)
EXTENDS Dawg

VARIABLES node,      \* id -> [final, numWords, labels, targets]  (function over 0..lastID)
          register,  \* sequence of ids
          lastID
bvars == <<acc, act, node, register, lastID>>

NewNode == [final |-> FALSE, numWords |-> 1, labels |-> <<>>, targets |-> <<>>]
ChildIdx(n, b) == IF \E k \in 1..Len(n.labels) : n.labels[k] = b THEN CHOOSE k \in 1..Len(n.labels) : n.labels[k] = b ELSE 0

(* commonPrefix: returns [nd |-> node function with counts bumped, at |-> id reached, i |-> letters consumed] *)
RECURSIVE Walk(_, _, _, _)
Walk(nd, id, w, i) ==
    LET nd2 == [nd EXCEPT ![id].numWords = @ + 1]
        k == IF i < Len(w) THEN ChildIdx(nd[id], w[i+1]) ELSE 0 IN
    IF k = 0 THEN [nd |-> nd2, at |-> id, i |-> i]
    ELSE Walk(nd2, nd[id].targets[k], w, i + 1)

Equivalent(nd, t, u) == nd[t].final = nd[u].final /\ nd[t].labels = nd[u].labels /\ nd[t].targets = nd[u].targets

(* replaceOrRegister on node t (which has children): returns [nd, reg] *)
RECURSIVE RoR(_, _, _)
RoR(nd, reg, t) ==
    LET last == Len(nd[t].targets)
        c == nd[t].targets[last]
        r1 == IF Len(nd[c].targets) # 0 THEN RoR(nd, reg, c) ELSE [nd |-> nd, reg |-> reg]
        eq == { k \in 1..Len(r1.reg) : Equivalent(r1.nd, c, r1.reg[k]) } IN
    IF eq # {} THEN [nd |-> [r1.nd EXCEPT ![t].targets[last] = r1.reg[Min(eq)]], reg |-> r1.reg]
    ELSE [nd |-> r1.nd, reg |-> Append(r1.reg, c)]

(* addSuffix from node `at` with the letters w[i+1..]; fresh ids lastID+1.. *)
RECURSIVE AddSuffix(_, _, _, _, _)
AddSuffix(nd, at, w, i, lid) ==
    IF i = Len(w) THEN [nd |-> [nd EXCEPT ![at].final = TRUE], lid |-> lid]
    ELSE LET nid == lid + 1
             nd2 == [k \in (DOMAIN nd) \cup {nid} |->
                        IF k = nid THEN NewNode
                        ELSE IF k = at THEN [nd[at] EXCEPT !.labels = Append(@, w[i+1]), !.targets = Append(@, nid)]
                        ELSE nd[k]] IN
         AddSuffix(nd2, nid, w, i + 1, nid)

BInit == /\ acc = <<>> /\ act = [op |-> "New", w |-> <<>>, err |-> FALSE]
         /\ node = [k \in {0} |-> [NewNode EXCEPT !.numWords = 0]] /\ register = <<>> /\ lastID = 0

BAdd(w) ==
    IF ~Accepts(acc, w)
    THEN /\ act' = [op |-> "Add", w |-> w, err |-> TRUE] /\ UNCHANGED <<acc, node, register, lastID>>
    ELSE LET wk == Walk(node, 0, w, 0)
             r == IF Len(wk.nd[wk.at].targets) # 0 THEN RoR(wk.nd, register, wk.at) ELSE [nd |-> wk.nd, reg |-> register]
             s == AddSuffix(r.nd, wk.at, w, wk.i, lastID) IN
         /\ acc' = Append(acc, w) /\ act' = [op |-> "Add", w |-> w, err |-> FALSE]
         /\ node' = s.nd /\ register' = r.reg /\ lastID' = s.lid

BNext == \E w \in Words : BAdd(w)
BSpec == BInit /\ [][BNext]_bvars

(* ---- what Finish would return from the current state ---- *)
Finished == IF Len(node[0].targets) # 0 THEN RoR(node, register, 0).nd ELSE node
RECURSIVE ReachFrom(_, _)
ReachFrom(nd, S) == LET S2 == S \cup UNION { SeqSet(nd[k].targets) : k \in S } IN IF S2 = S THEN S ELSE ReachFrom(nd, S2)
RECURSIVE LangOf(_, _)
LangOf(nd, id) == (IF nd[id].final THEN { <<>> } ELSE {}) \cup
                  UNION { { <<nd[id].labels[k]>> \o s : s \in LangOf(nd, nd[id].targets[k]) } : k \in 1..Len(nd[id].labels) }

(* ---- invariants ---- *)
AccSet == SeqSet(acc)
LanguageOK  == LangOf(node, 0) = AccSet /\ LangOf(Finished, 0) = AccSet
CountsOK    == \A k \in ReachFrom(node, {0}) : node[k].numWords = Cardinality(LangOf(node, k))
MinimalOK   == Cardinality(ReachFrom(Finished, {0})) = MinimalNodes(AccSet)
CountsFinishedOK == \A k \in ReachFrom(Finished, {0}) : Finished[k].numWords = Cardinality(LangOf(Finished, k))
RegisterOK  == \A i, j \in 1..Len(register) : i # j => ~Equivalent(node, register[i], register[j])
Deterministic == \A k \in DOMAIN node : Cardinality(SeqSet(node[k].labels)) = Len(node[k].labels)
(* refinement: the implementation-level builder follows the abstract protocol *)
Refines == Spec
=============================================================================
