CONSTANTS
  Alphabet = {97, 98}
  MaxLen = 2
INIT BInit
NEXT BNext
VIEW View
INVARIANTS StrictlyIncreasing LanguageOK CountsOK MinimalOK CountsFinishedOK RegisterOK Deterministic
PROPERTIES RejectedIsStutter Refines
CHECK_DEADLOCK FALSE
