----------------------------- MODULE DawgSearchMC ---------------------------
EXTENDS DawgSearch
A == 97
B == 98
C == 99          \* a letter that is not in the alphabet of the words
Q == 63          \* '?', the blank
WordsUpTo(k)  == UNION { [1..m -> {A, B}] : m \in 0..k }
SortedSeqs(k) == { SetToSortSeq(S, LexLess) : S \in SUBSET WordsUpTo(k) }
Args(k, alpha) == UNION { [1..m -> alpha] : m \in 0..k }
Desc(kind, blank, k, alpha) == { [kind |-> kind, arg |-> a, blank |-> blank] : a \in Args(k, alpha) }
(* single searchers with the blank outside the alphabet, and with the blank byte INSIDE the alphabet (blank = 'b') *)
Singles == Desc("pattern", Q, 3, {A, B, C, Q}) \cup Desc("anagram", Q, 3, {A, B, C, Q})
           \cup Desc("pattern", B, 2, {A, B}) \cup Desc("anagram", B, 3, {A, B})
Pairs   == { <<p, q>> : p \in Desc("pattern", Q, 2, {A, B, Q}), q \in Desc("anagram", Q, 2, {A, B, Q}) }
MCWordSets == SortedSeqs(2)
MCSearcherLists == { <<s>> : s \in Singles } \cup Pairs \cup { <<>> }
=============================================================================
