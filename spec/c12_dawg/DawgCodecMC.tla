----------------------------- MODULE DawgCodecMC ----------------------------
(* Runs the ASSUMEs of DawgCodec (varint rule on boundary values) and a      *)
(* round trip of a hand-written stream through the grammar reader.           *)
EXTENDS DawgCodec
VARIABLE x
Init == x = 0
Next == x < 1 /\ x' = x + 1
(* the automaton of {"a", "b"} with one shared final node: 2 nodes, ids 0 and 1 *)
Stream == <<2, 0, 1,   0, 2, 0, 2, 97, 1, 98, 1,   1, 1, 1, 0>>
ASSUME LET p == ParseDawg(Stream) IN
       /\ p.ok /\ Len(p.nodes) = 2
       /\ p.nodes[1] = [id |-> 0, final |-> FALSE, numWords |-> 2, labels |-> <<97, 98>>, targets |-> <<1, 1>>]
       /\ p.nodes[2] = [id |-> 1, final |-> TRUE, numWords |-> 1, labels |-> <<>>, targets |-> <<>>]
ASSUME ~ParseDawg(SubSeq(Stream, 1, Len(Stream) - 1)).ok /\ ~ParseDawg(Stream \o <<0>>).ok
=============================================================================
