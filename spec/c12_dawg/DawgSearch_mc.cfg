CONSTANTS
  WordSets <- MCWordSets
  SearcherLists <- MCSearcherLists
INIT Init
NEXT Next
INVARIANTS ResultOK FinalStateOK RanksInRange
PROPERTY BackRestores
CHECK_DEADLOCK FALSE
