CONSTANTS
  Handles = {1, 2}
  U <- UQuick
  MaxArgs = 3
INIT Init
NEXT Next
VIEW View
INVARIANTS TypeOK Algebra
PROPERTY OnlyReceiver
CHECK_DEADLOCK FALSE
