---------------------------- MODULE SortedIntsMC ----------------------------
EXTENDS SortedInts, Json
View == vals
J(v) == [h \in Handles |-> [live |-> v[h].live, s |-> Sorted(v[h].s)]]
DumpNext == Next /\ PrintT(<<"T", ToJson([f |-> J(vals), a |-> act', r |-> res', t |-> J(vals')])>>)
UQuick    == {-1, 0, 2, 3}
UThorough == {-2, -1, 0, 2, 3}
=============================================================================
