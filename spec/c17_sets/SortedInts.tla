----------------------------- MODULE SortedInts -----------------------------
(***************************************************************************)
(* C17.  sortints.SortedInts as a state machine: a table of handles, each   *)
(* holding a finite set of integers (the abstract value of the strictly     *)
(* increasing slice).  One action per public function.  The effect on the   *)
(* table (Eff) and the returned value (Res) are operators of the action     *)
(* record, so that the design model, the behaviour generator and the trace  *)
(* acceptor all use one definition.                                         *)
(***************************************************************************)
EXTENDS Integers, Sequences, FiniteSets, FiniteSetsExt, SequencesExt, TLC

None   == [live |-> FALSE, s |-> {}]     \* a handle that holds nothing
V(S)   == [live |-> TRUE, s |-> S]
SeqSet(s)    == { s[i] : i \in 1..Len(s) }
Sorted(S)    == SetToSortSeq(S, <)

(* uniform action record: [op, h, h2, xs, x, y, z] *)
Act(op, h, h2, xs, x, y, z) == [op |-> op, h |-> h, h2 |-> h2, xs |-> xs, x |-> x, y |-> y, z |-> z]

(* uniform result record *)
RNone      == [kind |-> "none", s |-> <<>>, i |-> 0, b |-> FALSE]
RSet(S)    == [kind |-> "set",  s |-> Sorted(S), i |-> 0, b |-> FALSE]
RInt(i)    == [kind |-> "int",  s |-> <<>>, i |-> i, b |-> FALSE]
RBool(b)   == [kind |-> "bool", s |-> <<>>, i |-> 0, b |-> b]
RRefuse    == [kind |-> "refuse", s |-> <<>>, i |-> 0, b |-> FALSE]

(* Range(start, end, step): the elements start + i*step, i >= 0, lying between start (inclusive)
   and end (exclusive) in the direction of step.  Where the direction of step does not lead from
   start towards end the documentation says the call panics ("Infinite set"). *)
RangeDefined(s, e, st) == e = s \/ (st > 0 /\ e > s) \/ (st < 0 /\ e < s)
RangeSet(s, e, st) == IF e = s THEN {}
                      ELSE IF st > 0 THEN { x \in s..(e-1) : (x - s) % st = 0 }
                      ELSE { x \in (e+1)..s : (s - x) % (-st) = 0 }

MutOps  == {"New", "Add", "Remove", "UnionM"}
FunOps  == {"Union", "Intersection", "SetMinus", "XOR", "IntersectionSize", "Complement",
            "ContainsSingle", "ContainsSorted", "Range"}

Enabled(v, a) ==
    CASE a.op = "New"   -> TRUE
      [] a.op \in {"Add", "Remove", "Complement", "ContainsSingle"} -> v[a.h].live
      [] a.op \in {"UnionM", "Union", "Intersection", "SetMinus", "XOR", "IntersectionSize", "ContainsSorted"}
                        -> v[a.h].live /\ v[a.h2].live
      [] a.op = "Range" -> TRUE

(* new table.  Functions return NEW values: the harness overwrites every returned slice in place
   (up to its capacity) before it observes the handles, so a result that aliases an argument shows
   up as a change of that argument - which Eff forbids (OTHER -> v). *)
Eff(v, a) ==
    CASE a.op = "New"    -> [v EXCEPT ![a.h] = V(SeqSet(a.xs))]
      [] a.op = "Add"    -> [v EXCEPT ![a.h] = V(@.s \cup SeqSet(a.xs))]
      [] a.op = "Remove" -> [v EXCEPT ![a.h] = V(@.s \ {a.x})]
      [] a.op = "UnionM" -> [v EXCEPT ![a.h] = V(@.s \cup v[a.h2].s)]
      [] OTHER           -> v

(* returned value *)
Res(v, a) ==
    CASE a.op = "Union"            -> RSet(v[a.h].s \cup v[a.h2].s)
      [] a.op = "Intersection"     -> RSet(v[a.h].s \cap v[a.h2].s)
      [] a.op = "SetMinus"         -> RSet(v[a.h].s \ v[a.h2].s)
      [] a.op = "XOR"              -> RSet((v[a.h].s \ v[a.h2].s) \cup (v[a.h2].s \ v[a.h].s))
      [] a.op = "IntersectionSize" -> RInt(Cardinality(v[a.h].s \cap v[a.h2].s))
      [] a.op = "Complement"       -> RSet((0..(a.x - 1)) \ v[a.h].s)
      [] a.op = "ContainsSingle"   -> RBool(a.x \in v[a.h].s)
      [] a.op = "ContainsSorted"   -> RBool(v[a.h2].s \subseteq v[a.h].s)
      [] a.op = "Range"            -> IF RangeDefined(a.x, a.y, a.z) THEN RSet(RangeSet(a.x, a.y, a.z)) ELSE RRefuse
      [] OTHER                     -> RNone

(* ---- the state machine ---- *)
CONSTANTS Handles, U, MaxArgs       \* universe of elements and longest variadic list of the design model
VARIABLES vals, act, res
vars == <<vals, act, res>>

ArgLists == UNION { [1..m -> U] : m \in 0..MaxArgs }

Actions(v) ==
       { Act("New", h, 0, xs, 0, 0, z) : h \in Handles, xs \in ArgLists, z \in {0, 1} }       \* z=1: with spare capacity
  \cup { Act("Add", h, 0, xs, 0, 0, 0) : h \in Handles, xs \in ArgLists }
  \cup { Act("Remove", h, 0, <<>>, x, 0, 0) : h \in Handles, x \in U }
  \cup { Act(op, h, h2, <<>>, 0, 0, 0) : op \in {"UnionM", "Union", "Intersection", "SetMinus", "XOR", "IntersectionSize", "ContainsSorted"},
                                          h \in Handles, h2 \in Handles }
  \cup { Act("Complement", h, 0, <<>>, n, 0, 0) : h \in Handles, n \in 0..(Max(U) + 2) }
  \cup { Act("ContainsSingle", h, 0, <<>>, x, 0, 0) : h \in Handles, x \in U \cup {Min(U) - 1, Max(U) + 1} }

Init == vals = [h \in Handles |-> None] /\ act = Act("Init", 0, 0, <<>>, 0, 0, 0) /\ res = RNone
Next == \E a \in Actions(vals) : Enabled(vals, a) /\ vals' = Eff(vals, a) /\ act' = a /\ res' = Res(vals, a)
Spec == Init /\ [][Next]_vars

TypeOK == \A h \in Handles : vals[h] = None \/ (vals[h].live /\ vals[h].s \subseteq U)
(* mutators change only their receiver; functions change nothing *)
OnlyReceiver == [][ \A h \in Handles : vals'[h] # vals[h] => (act'.op \in MutOps /\ act'.h = h) ]_vars
(* algebra the results must satisfy (sanity of the definitions themselves) *)
Algebra == \A h, k \in Handles : (vals[h].live /\ vals[k].live) =>
    LET A == vals[h].s  B == vals[k].s IN
    /\ SeqSet(Res(vals, Act("XOR", h, k, <<>>, 0, 0, 0)).s) = (A \cup B) \ (A \cap B)
    /\ Res(vals, Act("IntersectionSize", h, k, <<>>, 0, 0, 0)).i + Cardinality(A \cup B) = Cardinality(A) + Cardinality(B)
    /\ Res(vals, Act("ContainsSorted", h, k, <<>>, 0, 0, 0)).b = (A \cap B = B)
=============================================================================
