CONSTANTS
  Handles = {1, 2, 3}
  U = {}
  MaxArgs = 0
INIT TInit
NEXT TStep
INVARIANT Report
CHECK_DEADLOCK FALSE
