CONSTANTS
  Handles = {1, 2}
  U <- UThorough
  MaxArgs = 3
INIT Init
NEXT DumpNext
VIEW View
CHECK_DEADLOCK FALSE
