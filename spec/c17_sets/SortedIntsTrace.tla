--------------------------- MODULE SortedIntsTrace --------------------------
(***************************************************************************)
(* C17, code -> spec.  Monitor-style acceptor for traces of real            *)
(* sortints / ints.Sort calls.  It replays each logged action with the      *)
(* specification's own Eff / Res operators (SortedInts.tla) on the          *)
(* specification's own variable `vals` and compares, after every call, the  *)
(* returned value and the raw contents of EVERY live handle.                *)
(***************************************************************************)
EXTENDS SortedInts, TraceLib

VARIABLES l, dead, bad, st
Ev == Trace[l]

Ascending(s)  == \A i \in 1..(Len(s) - 1) : s[i] <= s[i+1]
Count(s, v)   == Cardinality({ i \in 1..Len(s) : s[i] = v })
SameBag(s, t) == Len(s) = Len(t) /\ \A v \in SeqSet(s) \cup SeqSet(t) : Count(s, v) = Count(t, v)

(* ---- the ints helpers (ints/ints.go): pure functions of one or two slices; a.xs and a.ys are the arguments ---- *)
RECURSIVE LexCmp(_, _, _)
LexCmp(x, y, i) == IF i > Len(x) /\ i > Len(y) THEN 0 ELSE IF i > Len(x) THEN -1 ELSE IF i > Len(y) THEN 1
                   ELSE IF x[i] > y[i] THEN 1 ELSE IF x[i] < y[i] THEN -1 ELSE LexCmp(x, y, i + 1)
RECURSIVE SumOf(_)
SumOf(x) == IF x = <<>> THEN 0 ELSE Head(x) + SumOf(Tail(x))
IntsOps == {"IntsEqual", "IntsCompare", "IntsHasPrefix", "IntsMax", "IntsMin", "IntsSum", "IntsReverse", "IntsAdd"}
IntsWant(a) ==
    CASE a.op = "IntsEqual"     -> RBool(a.xs = a.ys)
      [] a.op = "IntsCompare"   -> RInt(LexCmp(a.xs, a.ys, 1))
      [] a.op = "IntsHasPrefix" -> RBool(Len(a.ys) <= Len(a.xs) /\ SubSeq(a.xs, 1, Len(a.ys)) = a.ys)
      [] a.op = "IntsMax"       -> RInt(Max(SeqSet(a.xs)))
      [] a.op = "IntsMin"       -> RInt(Min(SeqSet(a.xs)))
      [] a.op = "IntsSum"       -> RInt(SumOf(a.xs))
      [] a.op = "IntsReverse"   -> [kind |-> "seq", s |-> [i \in 1..Len(a.xs) |-> a.xs[Len(a.xs) + 1 - i]], i |-> 0, b |-> FALSE]
      [] a.op = "IntsAdd"       -> [kind |-> "seq", s |-> [i \in 1..Len(a.xs) |-> a.xs[i] + a.ys[i]], i |-> 0, b |-> FALSE]

(* "" if the logged outcome of event e is what the specification prescribes from table v *)
Judge(v, e) ==
    LET a == e.a IN
    IF a.op = "Sort" THEN
         IF e.res # "ok" THEN e.res
         ELSE IF ~Ascending(e.r.s) THEN "Sort: output not ascending"
         ELSE IF ~SameBag(e.r.s, a.xs) THEN "Sort: output is not a permutation of the input"
         ELSE ""
    ELSE IF a.op \in IntsOps THEN
         (IF e.res # "ok" THEN e.res ELSE IF e.r # IntsWant(a) THEN "ints helper: result differs from the definition" ELSE "")
    ELSE IF ~Enabled(v, a) THEN "HARNESS: action not enabled"
    ELSE LET want == Res(v, a)  v2 == Eff(v, a) IN
         IF want.kind = "refuse" THEN
              (* the documentation says such a call panics; a crash is not a refusal *)
              IF e.r.kind = "refuse" THEN "" ELSE "expected the documented refusal, got " \o e.res
         ELSE IF e.res # "ok" THEN e.res
         ELSE IF e.r # want THEN "returned value differs from the specification"
         ELSE IF e.xs_after # a.xs THEN "caller's argument list modified"
         ELSE IF \E h \in Handles : e.obs[h].live # v2[h].live \/ e.obs[h].s # Sorted(v2[h].s)
              THEN "contents of handle " \o ToString(CHOOSE h \in Handles : e.obs[h].live # v2[h].live \/ e.obs[h].s # Sorted(v2[h].s)) \o " differ from the specification"
         ELSE ""

TInit == l = 1 /\ vals = [h \in Handles |-> None] /\ dead = FALSE /\ bad = <<>>
         /\ act = Act("Init", 0, 0, <<>>, 0, 0, 0) /\ res = RNone
         /\ st = [segs |-> 0, ops |-> 0, dupargs |-> 0, sorts |-> 0, ranges |-> 0]

HasDup(s) == Cardinality(SeqSet(s)) # Len(s)

TStep ==
    /\ l <= NEvents /\ l' = l + 1 /\ UNCHANGED <<act, res>>
    /\ IF Ev.ev = "Reset"
       THEN /\ vals' = [h \in Handles |-> None] /\ dead' = FALSE /\ bad' = bad
            /\ st' = [st EXCEPT !.segs = @ + 1]
       ELSE IF dead THEN UNCHANGED <<vals, dead, bad, st>>
       ELSE LET why == Judge(vals, Ev) IN
            /\ vals' = IF Ev.a.op = "Sort" \/ Ev.a.op \in IntsOps \/ ~Enabled(vals, Ev.a) THEN vals ELSE Eff(vals, Ev.a)
            /\ dead' = (why # "")
            /\ bad' = IF why = "" THEN bad ELSE Note(bad, [seg |-> Ev.seg, l |-> l, why |-> why \o " [" \o Ev.a.op \o "]"])
            /\ st' = [st EXCEPT !.ops = @ + 1,
                                !.dupargs = @ + (IF Ev.a.op \in {"Add", "New"} /\ HasDup(Ev.a.xs) THEN 1 ELSE 0),
                                !.sorts = @ + (IF Ev.a.op = "Sort" THEN 1 ELSE 0),
                                !.ranges = @ + (IF Ev.a.op = "Range" THEN 1 ELSE 0)]

Report == ReportLine(l, [bad |-> bad, st |-> st, events |-> NEvents])
=============================================================================
