CONSTANTS
  Handles = {1, 2}
  U <- UThorough
  MaxArgs = 3
INIT Init
NEXT Next
VIEW View
INVARIANTS TypeOK Algebra
PROPERTY OnlyReceiver
CHECK_DEADLOCK FALSE
