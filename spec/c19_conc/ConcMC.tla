-------------------------------- MODULE ConcMC --------------------------------
EXTENDS Conc, Json
(* every complete schedule is printed once (exhaustive mode explores the tree of schedules: sched is part of the state) *)
EmitSchedule == ~Done \/ PrintT(<<"S", ToJson([procs |-> Cardinality(Procs), steps |-> Steps, sched |-> sched])>>)
=============================================================================
