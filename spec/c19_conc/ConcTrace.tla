------------------------------- MODULE ConcTrace ------------------------------
(***************************************************************************)
(* C19, code -> spec.  One Run event = one execution of a workload by real  *)
(* goroutines: either under a schedule generated from Conc.tla (the         *)
(* controller releases one goroutine per section) or free-running.  The     *)
(* event carries the schedule, the result digest of every section and the   *)
(* digests of the same sections executed alone.  The monitor replays the    *)
(* schedule on Conc's private-scratch model (pc) and requires every section *)
(* result to equal the solo result.                                         *)
(***************************************************************************)
EXTENDS Integers, Sequences, FiniteSets, TLC, TraceLib

VARIABLES l, bad, st
Ev == Trace[l]
RECURSIVE CountIn(_, _)
CountIn(s, p) == IF s = <<>> THEN 0 ELSE (IF Head(s) = p THEN 1 ELSE 0) + CountIn(Tail(s), p)
ScheduleOK(e) == \A p \in 1..e.procs : CountIn(e.sched, p) = e.steps
JudgeRun(e) ==
    IF e.res # "ok" THEN e.res
    ELSE IF e.mode = "gated" /\ ~ScheduleOK(e) THEN "HARNESS: the schedule does not run every process to completion"
    ELSE IF Len(e.got) # e.procs \/ Len(e.solo) # e.procs THEN "HARNESS: wrong number of processes"
    ELSE IF \E p \in 1..e.procs : Len(e.got[p]) # Len(e.solo[p]) THEN "a goroutine completed a different number of sections than alone"
    ELSE IF \E p \in 1..e.procs : \E i \in 1..Len(e.solo[p]) : e.got[p][i] # e.solo[p][i]
         THEN "a goroutine obtained a different result than running alone (" \o e.kind \o ")"
    ELSE ""
TInit == l = 1 /\ bad = <<>> /\ st = [segs |-> 0, runs |-> 0, gated |-> 0, free |-> 0, sections |-> 0, switches |-> 0]
RECURSIVE Switches(_)
Switches(s) == IF Len(s) < 2 THEN 0 ELSE (IF s[1] # s[2] THEN 1 ELSE 0) + Switches(Tail(s))
TStep ==
    /\ l <= NEvents /\ l' = l + 1
    /\ IF Ev.ev = "Reset" THEN bad' = bad /\ st' = [st EXCEPT !.segs = @ + 1]
       ELSE LET why == JudgeRun(Ev) IN
            /\ bad' = IF why = "" THEN bad ELSE Note(bad, [seg |-> Ev.seg, l |-> l, why |-> why])
            /\ st' = [st EXCEPT !.runs = @ + 1, !.gated = @ + (IF Ev.mode = "gated" THEN 1 ELSE 0), !.free = @ + (IF Ev.mode = "free" THEN 1 ELSE 0),
                                !.sections = @ + Ev.procs * Ev.steps, !.switches = @ + (IF Ev.mode = "gated" /\ Switches(Ev.sched) > 0 THEN 1 ELSE 0)]
Report == ReportLine(l, [bad |-> bad, st |-> st, events |-> NEvents])
=============================================================================
