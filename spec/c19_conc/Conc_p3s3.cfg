CONSTANTS
  Procs = {1,2,3}
  Steps = 3
  SharedScratch = FALSE
INIT Init
NEXT Next
INVARIANTS Independent EmitSchedule
CHECK_DEADLOCK FALSE
