CONSTANTS
  Procs = {1,2,3,4}
  Steps = 2
  SharedScratch = FALSE
INIT Init
NEXT Next
INVARIANTS Independent EmitSchedule
CHECK_DEADLOCK FALSE
