CONSTANTS
  Procs = {1,2}
  Steps = 6
  SharedScratch = FALSE
INIT Init
NEXT Next
INVARIANTS Independent EmitSchedule
CHECK_DEADLOCK FALSE
