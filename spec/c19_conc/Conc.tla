--------------------------------- MODULE Conc ---------------------------------
(***************************************************************************)
(* C19.  Goroutines that each work on their own value (or only read a       *)
(* shared finished value).  A process is a program of Steps gate-to-gate    *)
(* sections; a schedule is an interleaving of the sections of all           *)
(* processes.  Each section reads the process's private state, may use      *)
(* scratch storage, and produces a result.                                  *)
(* SharedScratch = FALSE: scratch is private - the result of section        *)
(*   (p, i) is Solo(p, i) in EVERY interleaving (Independent).              *)
(* SharedScratch = TRUE : one scratch cell is shared and a section is two   *)
(*   steps (write, then read back): TLC finds the interleavings in which a  *)
(*   section of q falls between the two halves of a section of p - the      *)
(*   defect class this property excludes.                                   *)
(* The interleavings of the FALSE model are the schedules the harness       *)
(* executes with real goroutines under the race detector.                   *)
(***************************************************************************)
EXTENDS Integers, Sequences, FiniteSets, TLC

CONSTANTS Procs, Steps, SharedScratch
VARIABLES pc,        \* pc[p] = sections completed by p
          half,      \* half[p] = TRUE while p is between the two halves of a section (shared-scratch model only)
          scratch,   \* the shared cell (shared-scratch model only)
          results,   \* results[p] = sequence of results produced so far
          sched      \* the schedule so far (history)
vars == <<pc, half, scratch, results, sched>>

Solo(p, i) == 100 * p + i         \* what p computes in its i-th section when it runs alone

Init == pc = [p \in Procs |-> 0] /\ half = [p \in Procs |-> FALSE] /\ scratch = 0
        /\ results = [p \in Procs |-> <<>>] /\ sched = <<>>

(* private scratch: a section is atomic with respect to the values it touches *)
Section(p) == /\ ~SharedScratch /\ pc[p] < Steps
              /\ pc' = [pc EXCEPT ![p] = @ + 1]
              /\ results' = [results EXCEPT ![p] = Append(@, Solo(p, pc[p] + 1))]
              /\ sched' = Append(sched, p) /\ UNCHANGED <<half, scratch>>
(* shared scratch: write the intermediate value, later read it back *)
WriteHalf(p) == /\ SharedScratch /\ pc[p] < Steps /\ ~half[p]
                /\ scratch' = Solo(p, pc[p] + 1) /\ half' = [half EXCEPT ![p] = TRUE]
                /\ sched' = Append(sched, p) /\ UNCHANGED <<pc, results>>
ReadHalf(p)  == /\ SharedScratch /\ half[p]
                /\ results' = [results EXCEPT ![p] = Append(@, scratch)]
                /\ pc' = [pc EXCEPT ![p] = @ + 1] /\ half' = [half EXCEPT ![p] = FALSE]
                /\ sched' = Append(sched, p) /\ UNCHANGED scratch
Next == \E p \in Procs : Section(p) \/ WriteHalf(p) \/ ReadHalf(p)
Spec == Init /\ [][Next]_vars

Independent == \A p \in Procs : \A i \in 1..Len(results[p]) : results[p][i] = Solo(p, i)
Done == \A p \in Procs : pc[p] = Steps
=============================================================================
