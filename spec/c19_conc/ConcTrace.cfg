INIT TInit
NEXT TStep
INVARIANT Report
CHECK_DEADLOCK FALSE
