CONSTANTS
  Procs = {1,2}
  Steps = 3
  SharedScratch = TRUE
INIT Init
NEXT Next
INVARIANT Independent
CHECK_DEADLOCK FALSE
