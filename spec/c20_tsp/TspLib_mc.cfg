CONSTANTS
  MaxBody = 8
  CheckFlush = TRUE
INIT Init
NEXT Next
INVARIANTS TypeOK ReportsFailure
CHECK_DEADLOCK FALSE
