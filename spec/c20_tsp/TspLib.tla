------------------------------- MODULE TspLib -------------------------------
(***************************************************************************)
(* C20.  tsp.LIB against an io.Writer that follows a fault plan.            *)
(*                                                                          *)
(* Writer model: the k-th Write call succeeds unless the plan says          *)
(* otherwise: at call `at` (and, for a permanent fault, at every later      *)
(* call) it returns an error, having accepted 0 bytes ("fail"), a proper    *)
(* prefix ("short") or everything ("full": the error comes with a full      *)
(* count, as a writer may do whose failure is detected after the copy).  A  *)
(* short count without an error would break the io.Writer contract and is   *)
(* not part of the family.                                                  *)
(*                                                                          *)
(* LIB model (its control structure): three directly checked header writes, *)
(* the weight section through a buffering tab writer whose Flush performs   *)
(* 0..MaxBody writes and stops at the first error, then the checked EOF     *)
(* write.  CheckFlush says whether the error returned by Flush is looked    *)
(* at.  Property ReportsFailure: the result is an error iff some Write      *)
(* returned one.  TLC shows it holds with CheckFlush = TRUE and finds the   *)
(* violating plans (a transient fault inside the weight section) with       *)
(* CheckFlush = FALSE - the defect of the pinned tree.                      *)
(***************************************************************************)
EXTENDS Integers, Sequences, FiniteSets, TLC

CONSTANTS MaxBody, CheckFlush
Kinds == {"fail", "short", "full"}
Plans == { [at |-> k, kind |-> kd, perm |-> p] : k \in 0..(MaxBody + 5), kd \in Kinds, p \in BOOLEAN }   \* at = 0: no fault

VARIABLES pc, wcalls, failed, result, plan, body
vars == <<pc, wcalls, failed, result, plan, body>>

(* does the call number c fail under plan pl? *)
Faulty(pl, c) == pl.at > 0 /\ (c = pl.at \/ (pl.perm /\ c > pl.at))
(* outcome record of call number c writing len bytes: [n, err] *)
Outcome(pl, c, len) == IF ~Faulty(pl, c) THEN [n |-> len, err |-> FALSE]
                       ELSE IF pl.kind = "fail" THEN [n |-> 0, err |-> TRUE]
                       ELSE IF pl.kind = "short" THEN [n |-> len \div 2, err |-> TRUE]
                       ELSE [n |-> len, err |-> TRUE]

Init == /\ pc = "h1" /\ wcalls = 0 /\ failed = FALSE /\ result = "none"
        /\ plan \in Plans /\ body \in 0..MaxBody

Checked(from, to) ==
    /\ pc = from
    /\ wcalls' = wcalls + 1
    /\ LET bad == Faulty(plan, wcalls + 1) IN
       /\ failed' = (failed \/ bad)
       /\ IF bad THEN pc' = "done" /\ result' = "err"
          ELSE pc' = to /\ result' = (IF to = "done" THEN "nil" ELSE result)
    /\ UNCHANGED <<plan, body>>

(* Flush: writes one at a time, stops at the first error and returns it *)
FlushWrite ==
    /\ pc = "body" /\ body > 0
    /\ wcalls' = wcalls + 1
    /\ LET bad == Faulty(plan, wcalls + 1) IN
       /\ failed' = (failed \/ bad)
       /\ body' = IF bad THEN 0 ELSE body - 1
       /\ IF bad /\ CheckFlush THEN pc' = "done" /\ result' = "err"
          ELSE pc' = (IF body' = 0 THEN "eof" ELSE "body") /\ result' = result
    /\ UNCHANGED plan
FlushEmpty == pc = "body" /\ body = 0 /\ pc' = "eof" /\ UNCHANGED <<wcalls, failed, result, plan, body>>

Next == Checked("h1", "h2") \/ Checked("h2", "h3") \/ Checked("h3", "body")
        \/ FlushWrite \/ FlushEmpty \/ Checked("eof", "done")
Spec == Init /\ [][Next]_vars

ReportsFailure == pc = "done" => (result = "err") = failed
TypeOK == pc \in {"h1", "h2", "h3", "body", "eof", "done"} /\ result \in {"none", "nil", "err"} /\ wcalls \in 0..(MaxBody + 4)
=============================================================================
