CONSTANTS
  MaxBody = 0
  CheckFlush = TRUE
INIT TInit
NEXT TStep
INVARIANT Report
CHECK_DEADLOCK FALSE
