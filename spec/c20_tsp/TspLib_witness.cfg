CONSTANTS
  MaxBody = 8
  CheckFlush = FALSE
INIT Init
NEXT Next
INVARIANTS TypeOK ReportsFailure
CHECK_DEADLOCK FALSE
