----------------------------- MODULE TspLibTrace ----------------------------
(***************************************************************************)
(* C20, code -> spec.  One segment = one call of tsp.LIB(w, n, weights) on  *)
(* a writer that follows a fault plan.  Events: Plan, then in program order *)
(* every Weights(i,j) call (with the value it returned, as a decimal        *)
(* string) and every Write (length, returned count, error), then Ret with   *)
(* LIB's result and the lines (as token lists) of the bytes the writer      *)
(* accepted.  The monitor keeps TspLib's writer variables (wcalls, failed)  *)
(* and judges each event against the writer model and the format.           *)
(***************************************************************************)
EXTENDS TspLib, TraceLib

VARIABLES l, dead, bad, st, n, wvals    \* wvals: sequence of [i, j, s] in call order
Ev == Trace[l]

Header(nn) == << <<"TYPE:", "TSP">>, <<"DIMENSION:", ToString(nn)>>, <<"DISPLAY_DATA_TYPE:", "NO_DISPLAY">>,
                 <<"EDGE_WEIGHT_TYPE:", "EXPLICIT">>, <<"EDGE_WEIGHT_FORMAT:", "LOWER_DIAG_ROW">>, <<"EDGE_WEIGHT_SECTION">> >>
(* the k-th weights call must be (i,j) in row-major lower-triangle order: (1,0),(2,0),(2,1),(3,0),... *)
NextPair(w) == IF w = <<>> THEN <<1, 0>>
               ELSE LET p == w[Len(w)] IN IF p.j + 1 < p.i THEN <<p.i, p.j + 1>> ELSE <<p.i + 1, 0>>
Tri(i) == (i * (i - 1)) \div 2
Row(i, w) == [j \in 1..(i + 1) |-> IF j = i + 1 THEN "0" ELSE w[Tri(i) + j].s]
Expected(nn, w) == Header(nn) \o [i \in 1..nn |-> Row(i - 1, w)] \o << <<"EOF">> >>

JudgeWrite(e) ==
    LET c == wcalls + 1   want == Outcome(plan, c, e.len) IN
    IF e.err # want.err \/ e.n # want.n THEN "HARNESS: writer did not follow its plan" ELSE ""

JudgeRet(e) ==
    IF e.res # "ok" THEN e.res
    ELSE IF failed /\ ~e.err THEN "a Write failed but LIB returned nil"
    ELSE IF ~failed /\ e.err THEN "no Write failed but LIB returned an error"
    ELSE IF failed THEN ""
    ELSE IF Len(wvals) # Tri(n) THEN "weights called " \o ToString(Len(wvals)) \o " times"
    ELSE IF e.lines # Expected(n, wvals) THEN "output differs from the TSPLIB LOWER_DIAG_ROW layout"
    ELSE ""

TInit == /\ l = 1 /\ dead = FALSE /\ bad = <<>> /\ n = 0 /\ wvals = <<>>
         /\ pc = "h1" /\ wcalls = 0 /\ failed = FALSE /\ result = "none" /\ body = 0
         /\ plan = [at |-> 0, kind |-> "fail", perm |-> FALSE]
         /\ st = [segs |-> 0, writes |-> 0, faulty |-> 0, weightfaults |-> 0, rets |-> 0, plans |-> {}]

Flag(why) == /\ dead' = (why # "")
             /\ bad' = IF why = "" THEN bad ELSE Note(bad, [seg |-> Ev.seg, l |-> l, why |-> why])

TStep ==
    /\ l <= NEvents /\ l' = l + 1 /\ UNCHANGED <<pc, result, body>>
    /\ IF Ev.ev = "Reset"
       THEN /\ dead' = FALSE /\ bad' = bad /\ wcalls' = 0 /\ failed' = FALSE /\ wvals' = <<>>
            /\ UNCHANGED <<n, plan>> /\ st' = [st EXCEPT !.segs = @ + 1]
       ELSE IF dead THEN UNCHANGED <<dead, bad, st, n, wvals, wcalls, failed, plan>>
       ELSE IF Ev.ev = "Plan"
       THEN /\ n' = Ev.n /\ plan' = [at |-> Ev.at, kind |-> Ev.kind, perm |-> Ev.perm]
            /\ st' = [st EXCEPT !.plans = @ \cup {<<Ev.n, Ev.w, Ev.at, Ev.kind, Ev.perm>>}]
            /\ UNCHANGED <<dead, bad, wvals, wcalls, failed>>
       ELSE IF Ev.ev = "Weights"
       THEN LET p == NextPair(wvals)
                why == IF ~(0 <= Ev.j /\ Ev.j < Ev.i /\ Ev.i < n) THEN "weights called outside 0 <= j < i < n"
                       ELSE IF <<Ev.i, Ev.j>> # p THEN "weights not called in row order" ELSE "" IN
            /\ Flag(why) /\ wvals' = Append(wvals, [i |-> Ev.i, j |-> Ev.j, s |-> Ev.s])
            /\ UNCHANGED <<st, n, wcalls, failed, plan>>
       ELSE IF Ev.ev = "Write"
       THEN /\ Flag(JudgeWrite(Ev)) /\ wcalls' = wcalls + 1 /\ failed' = (failed \/ Ev.err)
            /\ st' = [st EXCEPT !.writes = @ + 1, !.faulty = @ + (IF Ev.err THEN 1 ELSE 0),
                                !.weightfaults = @ + (IF Ev.err /\ wcalls >= 3 /\ Len(wvals) > 0 THEN 1 ELSE 0)]
            /\ UNCHANGED <<n, wvals, plan>>
       ELSE /\ Flag(JudgeRet(Ev)) /\ st' = [st EXCEPT !.rets = @ + 1]
            /\ UNCHANGED <<n, wvals, wcalls, failed, plan>>

Report == ReportLine(l, [bad |-> bad, st |-> [st EXCEPT !.plans = Cardinality(@)], events |-> NEvents])
=============================================================================
