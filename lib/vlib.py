"""Shared orchestration for /verif/bin/check (DESIGN.md section 2).

Every check follows the same pipeline:
  1. TLC explores the design model(s) of the property's specification (exhaustive, small constants);
  2. TLC dumps behaviours / transitions of the specification (generator) - optional;
  3. the Go harness `vdrive`, rebuilt from /repo's working tree with -tags verif, replays those on the
     real code (spec -> code) and/or runs its own drivers and records ndjson traces;
  4. TLC trace acceptors (monitor style) validate every recorded trace against the specification
     (code -> spec);
  5. every candidate finding is re-executed on the real code and re-validated before it is reported.
Exit status: 0 = property held on everything explored, 1 = VIOLATION line(s) printed,
2 = infrastructure failure (never reported as a violation).
"""
import concurrent.futures as cf
import hashlib
import json
import os
import re
import shutil
import subprocess
import sys
import tempfile
import time

VERIF = os.path.dirname(os.path.dirname(os.path.abspath(__file__)))
REPO = os.environ.get("VERIF_REPO", "/repo")
# evidence and replay files of a seedcheck run (VERIF_REPO set) must not overwrite those of the registered checks
# Evidence and replays go to the tree the check runs from (a `vp run` snapshot writes into the snapshot, not into /verif);
# VERIF_NO_EVIDENCE=1 (multi-seed and regression runs) sends them to a scratch directory instead.
OUTROOT = VERIF if (REPO == "/repo" and not os.environ.get("VERIF_NO_EVIDENCE")) else "/tmp/verif-seed-out"
SPEC = os.path.join(VERIF, "spec")
JAR = "/opt/veriftools/tla/tla2tools.jar:/opt/veriftools/tla/CommunityModules-deps.jar"
NCPU = os.cpu_count() or 4


import threading
_lock = threading.Lock()


class Infra(Exception):
    """infrastructure failure: exit 2, never a violation"""


def goenv():
    e = dict(os.environ)
    e.update(GOFLAGS="-mod=mod", GOPROXY="off", GOSUMDB="off", GOTOOLCHAIN="local", CGO_ENABLED=e.get("CGO_ENABLED", "1"))
    return e


def sh(cmd, timeout=None, env=None, cwd=None, ok=(0,)):
    p = subprocess.run(cmd, stdout=subprocess.PIPE, stderr=subprocess.STDOUT, timeout=timeout, env=env, cwd=cwd, text=True)
    if ok is not None and p.returncode not in ok:
        raise Infra("command failed (%d): %s\n%s" % (p.returncode, " ".join(cmd), p.stdout[-4000:]))
    return p


class Ctx:
    def __init__(self, pid, tier, seed):
        self.pid, self.tier, self.seed = pid, tier, seed
        self.t0 = time.time()
        self.work = tempfile.mkdtemp(prefix="verif-%s-" % pid)
        self.vdrive = None
        self.cov = {}            # coverage keys for the evidence file
        self.assumptions = []
        self.candidates = []     # {key, why, input}
        self.leads = []
        self.tlc_runs = 0
        self.level = "model_checking"

    @property
    def thorough(self):
        return self.tier == "thorough"

    def sub(self, name):
        d = os.path.join(self.work, name)
        os.makedirs(d, exist_ok=True)
        return d

    def cleanup(self):
        shutil.rmtree(self.work, ignore_errors=True)

    # ---- Go harness -------------------------------------------------------------------------
    def build(self, race=False):
        out = os.path.join(self.work, "vdrive-race" if race else "vdrive")
        if os.path.exists(out):
            return out
        cmd = ["go", "build", "-tags", "verif"] + (["-race"] if race else []) + ["-o", out, "./cmd/vdrive"]
        hdir = os.path.join(VERIF, "harness")
        if REPO != "/repo":
            # bin/seedcheck only: build the same harness against a scratch worktree (VERIF_REPO) so that seeded changes never touch /repo.
            # The registered commands never set VERIF_REPO.
            hdir = os.path.join(self.work, "harness")
            if not os.path.exists(hdir):
                shutil.copytree(os.path.join(VERIF, "harness"), hdir)
                gm = open(os.path.join(hdir, "go.mod")).read().replace("=> /repo", "=> " + REPO)
                open(os.path.join(hdir, "go.mod"), "w").write(gm)
        p = sh(cmd, timeout=600, env=goenv(), cwd=hdir, ok=None)
        if p.returncode != 0:
            raise Infra("harness does not build against %s:\n%s" % (REPO, p.stdout[-3000:]))
        if not race:
            self.vdrive = out
        return out

    def drive(self, out, gen=None, infile=None, shards=8, extra=(), timeout=3000, race=False, pid=None, env_extra=None):
        exe = self.build(race)
        cmd = [exe, pid or self.pid, "drive", "-out", out, "-tier", self.tier, "-seed", str(self.seed), "-shards", str(shards)]
        if gen:
            cmd += ["-gen", gen]
        if infile:
            cmd += ["-in", infile]
        cmd += list(extra)
        env = goenv()
        env["GORACE"] = "halt_on_error=1 exitcode=66"
        env.update(env_extra or {})
        p = subprocess.run(cmd, stdout=subprocess.PIPE, stderr=subprocess.STDOUT, timeout=timeout, text=True, env=env)
        if race and p.returncode == 66 and "DATA RACE" in p.stdout:
            return dict(race=True, report=p.stdout[-6000:], segments=0)
        if p.returncode != 0:
            raise Infra("driver failed (%d): %s\n%s" % (p.returncode, " ".join(cmd), p.stdout[-3000:]))
        meta = {}
        mp = os.path.join(out, "meta.json")
        if os.path.exists(mp):
            meta = json.load(open(mp))
        return meta

    # ---- TLC --------------------------------------------------------------------------------
    def tlc(self, module, cfg, workers=1, env=None, timeout=1500, heap="4g", outfile=None, extra=(), allow=(0,), simulate=None, depth=None):
        """Run TLC on spec/<module>.tla with spec/<cfg>. Returns dict(out, generated, distinct, results, rc)."""
        with _lock:
            self.tlc_runs += 1
            k = self.tlc_runs
        md = self.sub("md-%d" % k)
        tmp = self.sub("tmp")
        cmd = ["java", "-XX:+UseParallelGC", "-Xmx" + heap, "-Xss256m", "-Djava.io.tmpdir=" + tmp,
               "-DTLA-Library=" + os.path.join(SPEC, "lib"), "-cp", JAR, "tlc2.TLC",
               "-noGenerateSpecTE", "-workers", str(workers), "-metadir", md, "-config", os.path.join(SPEC, cfg)]
        if simulate:
            cmd += ["-simulate", simulate]
        if depth:
            cmd += ["-depth", str(depth)]
        cmd += list(extra) + [os.path.join(SPEC, module + ".tla")]
        e = dict(os.environ)
        e.update(env or {})
        outpath = outfile or os.path.join(md, "tlc.out")
        t0 = time.time()
        with open(outpath, "w") as f:
            try:
                p = subprocess.run(cmd, stdout=f, stderr=subprocess.STDOUT, timeout=timeout, env=e, cwd=md)
            except subprocess.TimeoutExpired:
                raise Infra("TLC timed out after %ss on %s/%s" % (timeout, module, cfg))
        res = dict(out=outpath, rc=p.returncode, generated=0, distinct=0, results=[], wall=time.time() - t0)
        tail = []
        errs, follow = [], 0
        with open(outpath, errors="replace") as f:
            for ln in f:
                if follow > 0 and len(errs) < 40:
                    errs.append(ln[:400])
                    follow -= 1
                elif ("Error:" in ln or "xception" in ln) and len(errs) < 40:
                    errs.append(ln[:400])
                    follow = 4
                if ln.startswith('<<"VERIF-RESULT", '):
                    res["results"].append(json.loads(json.loads(ln[len('<<"VERIF-RESULT", '):].rstrip()[:-2])))
                    continue
                if ln.startswith('<<"'):
                    continue
                m = re.match(r"(\d+) states generated, (\d+) distinct states found", ln)
                if m:
                    res["generated"], res["distinct"] = int(m.group(1)), int(m.group(2))
                tail.append(ln)
                if len(tail) > 60:
                    tail.pop(0)
        res["tail"] = "".join(tail)
        res["head"] = "".join(errs)[:1800]
        if p.returncode not in allow:
            raise Infra("TLC exit %d on %s/%s:\n%s...\n%s" % (p.returncode, module, cfg, res["head"], res["tail"][-2000:]))
        shutil.rmtree(os.path.join(md, "states"), ignore_errors=True)
        return res

    def model(self, module, cfg, workers=None, **kw):
        """Exhaustive design-model run; an invariant violation here is a defect of the specification
        (mine), so it is an infrastructure failure, not a verdict about the code."""
        r = self.tlc(module, cfg, workers=workers or min(NCPU, 16), **kw)
        self.cov["states"] = self.cov.get("states", 0) + r["distinct"]
        self.cov["transitions"] = self.cov.get("transitions", 0) + r["generated"]
        self.cov.setdefault("models", []).append(dict(module=module, cfg=cfg, distinct=r["distinct"], generated=r["generated"], wall_s=round(r["wall"], 1)))
        return r

    def accept(self, module, cfg, traces, heap="2500m", timeout=1500, env=None):
        """Validate trace shards in parallel single-worker TLC processes. Returns merged (bad, stats)."""
        traces = [t for t in traces if os.path.getsize(t) > 0]

        def one(t):
            e = dict(env or {})
            e["VERIF_TRACE"] = t
            r = self.tlc(module, cfg, workers=1, env=e, heap=heap, timeout=timeout)
            if len(r["results"]) != 1:
                raise Infra("acceptor %s did not consume trace %s:\n%s" % (module, t, r["tail"][-3000:]))
            return r["results"][0], r
        bad, stats = [], {}
        with cf.ThreadPoolExecutor(max_workers=min(NCPU, 16)) as ex:
            for res, r in ex.map(one, traces):
                for b in res.get("bad", []):
                    bad.append(b)
                for k, v in res.get("st", {}).items():
                    if isinstance(v, int):
                        stats[k] = stats.get(k, 0) + v
                    elif isinstance(v, list):
                        stats.setdefault(k, [])
                        stats[k] += v
                stats["events"] = stats.get("events", 0) + res.get("events", 0)
        return bad, stats


def glob_traces(d, prefix="trace"):
    return sorted(os.path.join(d, f) for f in os.listdir(d) if f.startswith(prefix + "-") and f.endswith(".ndjson"))


def segments(traces, want):
    """Return {seg: dict(reset=<Reset event>, first=<line no of Reset in its file>)} for wanted segment numbers."""
    out = {}
    want = set(want)
    for t in traces:
        with open(t) as f:
            for i, ln in enumerate(f, 1):
                if ln.startswith('{"') and '"ev":"Reset"' in ln[:4000]:
                    try:
                        e = json.loads(ln)
                    except Exception:
                        continue
                    if e.get("ev") == "Reset" and e["seg"] in want:
                        out[e["seg"]] = dict(reset=e, first=i)
    return out


def sha(s):
    return hashlib.sha1(s.encode()).hexdigest()[:16]


def load_known(pid):
    p = os.path.join(VERIF, "known_findings.json")
    if not os.path.exists(p):
        return {}
    ks = json.load(open(p))
    return {k["key"]: k for k in ks.get("findings", []) if k.get("property") == pid and k.get("status") == "open"}


def write_evidence(ctx, violations, known):
    cov = dict(ctx.cov)
    cov.setdefault("samples", [])
    ev = dict(property_id=ctx.pid, tier=ctx.tier, seed=ctx.seed, level=ctx.level, coverage=cov,
              assumptions=ctx.assumptions, wall_s=round(time.time() - ctx.t0, 1), violations=violations,
              known_findings_seen=known, unreproduced_leads=ctx.leads[:20])
    os.makedirs(os.path.join(OUTROOT, "evidence"), exist_ok=True)
    with open(os.path.join(OUTROOT, "evidence", ctx.pid + ".json"), "w") as f:
        json.dump(ev, f, indent=1, sort_keys=True)
        f.write("\n")


def finish(ctx, confirm):
    """confirm(candidates) -> list of confirmed {key, why, input}. Prints verdict lines, writes evidence, returns exit code."""
    cands, seen = [], set()
    for c in ctx.candidates:
        if c["key"] not in seen:
            seen.add(c["key"])
            cands.append(c)
    confirmed = confirm(cands) if cands else []
    ckeys = {c["key"] for c in confirmed}
    for c in cands:
        if c["key"] not in ckeys:
            ctx.leads.append(dict(key=c["key"], why=c.get("why", "")))
    known = load_known(ctx.pid)
    nviol, nknown = 0, 0
    rdir = os.path.join(OUTROOT, "replays", ctx.pid)
    for c in confirmed:
        if c["key"] in known:
            nknown += 1
            print("KNOWN-FINDING: property=%s %s -- %s" % (ctx.pid, c["key"], known[c["key"]].get("what", c.get("why", ""))))
            continue
        nviol += 1
        if nviol > 25:
            continue
        os.makedirs(rdir, exist_ok=True)
        path = os.path.join(rdir, sha(c["key"]) + ".json")
        with open(path, "w") as f:
            json.dump(dict(property=ctx.pid, key=c["key"], why=c.get("why", ""), seed=ctx.seed, tier=ctx.tier, input=c["input"]), f, indent=1)
        print("VIOLATION property=%s replay=%s" % (ctx.pid, path))
        print("  key: %s\n  why: %s" % (c["key"][:300], c.get("why", "")))
    write_evidence(ctx, nviol, nknown)
    if nviol:
        return 1
    if ctx.leads and not confirmed:
        print("INFRA: %d candidate finding(s) did not reproduce on replay: %s" % (len(ctx.leads), ctx.leads[:3]))
        return 2
    return 0


def standard_confirm(ctx, module, cfg, pid=None, env=None):
    """Re-execute each candidate input on the real code and re-validate with the acceptor."""
    def confirm(cands):
        cands = cands[:60]
        d = ctx.sub("confirm")
        inp = os.path.join(d, "in.json")
        with open(inp, "w") as f:
            json.dump(dict(inputs=[c["input"] for c in cands]), f)
        ctx.drive(d, infile=inp, shards=1, pid=pid)
        traces = glob_traces(d)
        bad, _ = ctx.accept(module, cfg, traces, env=env)
        segs = segments(traces, [b["seg"] for b in bad])
        out, seen = [], set()
        for b in bad:
            s = segs.get(b["seg"])
            if not s:
                continue
            k = s["reset"]["key"]
            if k in seen:
                continue
            seen.add(k)
            out.append(dict(key=k, why=b.get("why", ""), input=s["reset"].get("input")))
        # a candidate counts as confirmed if the replayed segment with the same key is rejected again
        return out
    return confirm


def add_bad_segments(ctx, traces, bad, truncate_hist=True):
    """Turn acceptor findings into candidates (input taken from the segment's Reset event)."""
    segs = segments(traces, [b["seg"] for b in bad])
    for b in bad:
        s = segs.get(b["seg"])
        if not s:
            raise Infra("acceptor reported unknown segment %r" % (b,))
        if str(b.get("why", "")).startswith("HARNESS"):
            raise Infra("harness logged something the specification calls invalid: %r key=%s" % (b, s["reset"]["key"][:200]))
        inp = s["reset"].get("input")
        if truncate_hist and isinstance(inp, dict) and "hist" in inp and "l" in b:
            nops = b["l"] - s["first"]
            inp = dict(inp)
            inp["hist"] = inp["hist"][:max(nops, 1)]
        ctx.candidates.append(dict(key=s["reset"]["key"], why=b.get("why", ""), input=inp))


def main(run, replay):
    args = sys.argv[1:]
    pid = args[0]
    seed = int(os.environ.get("VERIF_SEED", "1") or "1")
    if len(args) >= 3 and args[1] == "--replay":
        ctx = Ctx(pid, "quick", seed)
        try:
            rp = json.load(open(args[2]))
            got = replay(ctx, rp)
            if got:
                print("VIOLATION property=%s replay=%s" % (pid, os.path.abspath(args[2])))
                print("  why: %s" % got[0].get("why", ""))
                return 1
            print("replay: not reproduced (property holds on this input)")
            return 0
        except Infra as e:
            print("INFRA: %s" % e)
            return 2
        finally:
            ctx.cleanup()
    tier = os.environ.get("VERIF_TIER") or (args[1] if len(args) > 1 else "quick")
    if tier not in ("quick", "thorough"):
        tier = "quick"
    ctx = Ctx(pid, tier, seed)
    try:
        rc = run(ctx)
        print("%s %s seed=%d: exit %d in %.1fs" % (pid, tier, seed, rc, time.time() - ctx.t0))
        return rc
    except Infra as e:
        print("INFRA: %s" % e)
        return 2
    except subprocess.TimeoutExpired as e:
        print("INFRA: timeout %s" % e)
        return 2
    finally:
        ctx.cleanup()
