"""Registry of checks; bin/mkmanifest turns it into MANIFEST.json (kept valid at all times)."""
ALL = ["C%02d" % i for i in range(1, 21)]

# id -> dict(level, text, note, technique, design_ref)
CLAIMED = {
 "C05": dict(
  level="model_checking",
  text="EditGraph.tla specifies the EditableGraph API as a state machine over a table of handles holding abstract simple graphs. "
       "TLC explores it exhaustively (2 handles, MaxN=3 quick / 4 thorough) and dumps every transition; each is replayed from a genuine "
       "shortest history on DenseGraph and SparseGraph with all live handles fully observed after every action (spec -> code). Seeded random "
       "histories (3 handles, n<=7/9) are recorded from the real code and validated step by step by the TLC acceptor EditGraphTrace.tla "
       "(code -> spec). Exhaustive over histories' transitions within the bound, sampled beyond.",
  note="Trusts TLC's evaluation of lib/Graphs.tla, the Go observation code (harness/internal/obs) and JSON transport. Valid arguments only.",
  technique="TLA+ state machine + TLC exhaustive transition dump replayed on the code; TLC trace validation of recorded histories",
  design_ref="DESIGN.md section 6, C05"),
 "C17": dict(
  level="model_checking",
  text="SortedInts.tla specifies sortints as a state machine over handles holding finite integer sets, one action per public function, with "
       "effect (Eff) and returned value (Res) as operators of the action record. TLC explores it exhaustively (2 handles, universe of 4/5 ints, "
       "every variadic argument list of length <=3) and dumps every transition; each is replayed on the real code from a shortest history "
       "(receivers with and without spare capacity), comparing result, argument list and the raw contents of every handle. Random histories, the "
       "whole Range grid and ints.Sort inputs are recorded from the real code and validated by the TLC acceptor SortedIntsTrace.tla, which "
       "reuses Eff/Res.",
  note="Trusts TLC, the harness and JSON transport. ints.Sort is judged as 'ascending permutation of the input' on inputs with few distinct values; "
       "the heapsort fallback of ints.Sort is only reached if an adversarial input is among the generated ones (not guaranteed).",
  technique="TLA+ state machine + TLC exhaustive transition dump replayed on the code; TLC trace validation of recorded histories",
  design_ref="DESIGN.md section 6, C17"),
}

PENDING_REASON = "check not built yet in this round (planned with the same TLA+/TLC pipeline, see DESIGN.md section 6)"
