package main

// C01 / C02: canonical labelling.
//  C01: for every graph of the family and every relabelling of the relabelling family (all n! for
//       n <= 7) on both representations, the canonical graph; one CanonSum event per graph with
//       the distinct canonical graphs and a witness for each.
//  C02: CanonicalIsomorphFull (orbits, generators), vertex classes, reused storage; one CanonFull
//       event per call.
// Validated by CanonTrace.tla (brute-force Aut(g) as oracle).

import (
	"encoding/json"
	"fmt"
	"math/rand"
	"os"
	"runtime"
	"sort"
	"sync"
	"sync/atomic"
	"time"

	"github.com/Tom-Johnston/mamba/disjoint"
	"github.com/Tom-Johnston/mamba/graph"
	"github.com/Tom-Johnston/mamba/graph/search"

	"verifharness/internal/obs"
	"verifharness/internal/tr"
)

func init() {
	drivers["C01"] = func(c *Ctx) { driveCanon(c, "C01") }
	drivers["C02"] = func(c *Ctx) { driveCanon(c, "C02") }
}

type canonIn struct {
	Kind    string    `json:"kind"` // sum | full | reuse
	Name    string    `json:"name"`
	G       gJ        `json:"g"`
	Pis     [][]int   `json:"pis"`     // sum: explicit relabellings (nil = the family decided by All/Samples)
	All     bool      `json:"all"`     // sum: all n! relabellings
	Samples int       `json:"samples"` // sum: number of seeded random relabellings
	Seed    int64     `json:"seed"`
	Classes [][]int   `json:"classes"`
	Pi      []int     `json:"pi"`     // full: relabelling applied before the call
	Rep     string    `json:"rep"`    // full
	Seq     []gJ      `json:"seq"`    // reuse: graphs pushed through one storage
	SeqCls  [][][]int `json:"seqcls"` // reuse: vertex classes per graph of the sequence (nil entries = none)
	Cap     int       `json:"cap"`
	Known   [][]int   `json:"known"` // full, wb: automorphisms of g known by construction (a[v] = image of v)
	Order   int       `json:"order"` // wb with Known: the order of the group they generate, predicted by the construction
	idx     int       // position in the run (watchdog bookkeeping, not part of the input)
}

type wbEv struct {
	T string `json:"t"`
	A int    `json:"a"`
	B int    `json:"b"`
	S []int  `json:"s"`
	U []int  `json:"u"`
}

// canonWB records the search-tree events of one call through the verif hook (sequential: the tracer is a package variable).
func canonWB(in canonIn) tr.E {
	pi := in.Pi
	if len(pi) != in.G.N {
		pi = identity(in.G.N)
	}
	evs := []wbEv{}
	perm := []int{}
	inv := make([]int, len(pi))
	for i, v := range pi {
		inv[v] = i
	}
	known := [][]int{} // in the labelling of the relabelled graph: new vertex i is old pi[i]
	for _, a := range in.Known {
		b := make([]int, len(pi))
		for i := range pi {
			b[i] = inv[a[pi[i]]]
		}
		known = append(known, b)
	}
	maxEv := 4000
	if len(known) > 0 {
		maxEv = 15000
	}
	res := obs.Safe(func() {
		h := relabelled(in.Rep, in.G, pi)
		graph.VerifCanonTracer = func(ev string, a, b int, s, t []int) {
			if len(evs) < maxEv {
				evs = append(evs, wbEv{T: ev, A: a, B: b, S: cp(s), U: cp(t)})
			}
		}
		defer func() { graph.VerifCanonTracer = nil }()
		perm = cp(graph.CanonicalIsomorph(h))
	})
	if len(evs) >= maxEv {
		res = "HARNESS: more search events than the recorder keeps"
	}
	return tr.E{"ev": "CanonWB", "g": in.G, "pi": pi, "rep": in.Rep, "evs": evs, "perm": perm, "res": res, "known": known, "order": in.Order}
}

func (in canonIn) key() string {
	e := fmt.Sprint(in.G.E)
	if len(e) > 90 {
		e = fmt.Sprintf("%s...(%d edges)", e[:70], len(in.G.E))
	}
	switch in.Kind {
	case "sum":
		fam := fmt.Sprintf("%d seeded relabellings", in.Samples)
		if in.All {
			fam = "all relabellings"
		}
		if len(in.Pis) > 0 {
			fam = fmt.Sprintf("pis=%v", in.Pis)
		}
		s := fmt.Sprintf("Canon[%s](n=%d,e=%s;%s)", in.Name, in.G.N, e, fam)
		if len(in.Classes) > 0 {
			s += fmt.Sprintf(",classes=%v", in.Classes)
		}
		return s
	case "wb":
		return fmt.Sprintf("WB[%s](n=%d,e=%s,pi=%v,%s)", in.Name, in.G.N, e, in.Pi, in.Rep)
	case "full":
		return fmt.Sprintf("Full[%s](n=%d,e=%s,pi=%v,classes=%v,%s)", in.Name, in.G.N, e, in.Pi, in.Classes, in.Rep)
	}
	return fmt.Sprintf("Reuse[%s](cap=%d,seq=%v)", in.Name, in.Cap, in.Seq)
}

func ranksOf(g graph.Graph) []int {
	n := g.N()
	r := []int{}
	for j := 1; j < n; j++ {
		for i := 0; i < j; i++ {
			if g.IsEdge(i, j) {
				r = append(r, obs.PairToRank(i, j))
			}
		}
	}
	return r
}

func gJOf(g graph.Graph) gJ { return gJ{N: g.N(), E: ranksOf(g)} }

func identity(n int) []int {
	p := make([]int, n)
	for i := range p {
		p[i] = i
	}
	return p
}

// mapClasses: the classes of the relabelled graph (new vertex i is old pi[i]). A class is a set: it is listed in the order the relabelling
// gives it (ascending only under the identity), which the documented interface does not restrict.
func mapClasses(cls [][]int, pi []int) [][]int {
	if len(cls) == 0 {
		return nil
	}
	inv := make([]int, len(pi))
	for i, v := range pi {
		inv[v] = i
	}
	out := make([][]int, len(cls))
	for k, c := range cls {
		d := make([]int, len(c))
		for i, v := range c {
			d[i] = inv[v]
		}
		out[k] = d
	}
	return out
}

type witness struct {
	Pi   []int  `json:"pi"`
	Perm []int  `json:"perm"`
	Rep  string `json:"rep"`
}

// canonSum runs the relabelling family and returns the CanonSum event.
// callStart[i] is the time (unix nanoseconds) at which input i entered the library call it is in now, 0 when it is in none. A call that
// does not return cannot be stopped from outside; the watchdog in driveCanon reports it and ends the process after flushing the traces.
var callStart []int64

func inCall(in canonIn, f func()) {
	if in.idx < len(callStart) {
		atomic.StoreInt64(&callStart[in.idx], time.Now().UnixNano())
		defer atomic.StoreInt64(&callStart[in.idx], 0)
	}
	f()
}

func canonSum(in canonIn) tr.E {
	n := in.G.N
	codes := map[string]int{}
	var codeList [][]int
	var wit []witness
	tried := 0
	res := "ok"
	one := func(pi []int, rep string) {
		if res != "ok" {
			return
		}
		var perm []int
		var code []int
		r := obs.Safe(func() {
			h := relabelled(rep, in.G, pi)
			inCall(in, func() {
				if len(in.Classes) > 0 {
					p, _, _ := graph.CanonicalIsomorphFull(h, mapClasses(in.Classes, pi))
					perm = cp(p)
				} else {
					perm = cp(graph.CanonicalIsomorph(h))
				}
			})
			if len(perm) != n {
				panic(fmt.Sprintf("permutation of length %d for n=%d", len(perm), n))
			}
			seen := make([]bool, n)
			for _, v := range perm {
				if v < 0 || v >= n || seen[v] {
					code = nil
					return
				}
				seen[v] = true
			}
			code = ranksOf(h.InducedSubgraph(perm))
		})
		tried++
		if r != "ok" {
			res = r
			wit = append(wit, witness{Pi: cp(pi), Perm: []int{}, Rep: rep})
			codeList = append(codeList, []int{})
			return
		}
		k := fmt.Sprint(code, code == nil)
		if len(in.Classes) > 0 { // with classes the canonical object is the graph together with the image of the classes
			img := make([]int, n)
			cl := mapClasses(in.Classes, pi)
			for ci, c := range cl {
				for _, v := range c {
					for pos, pv := range perm {
						if pv == v {
							img[pos] = ci
						}
					}
				}
			}
			k += fmt.Sprint(img)
		}
		if _, ok := codes[k]; !ok {
			codes[k] = len(codeList)
			if code == nil {
				code = []int{}
			}
			codeList = append(codeList, code)
			wit = append(wit, witness{Pi: cp(pi), Perm: perm, Rep: rep})
		}
	}
	reps := []string{"dense", "sparse"}
	switch {
	case len(in.Pis) > 0:
		for _, pi := range in.Pis {
			for _, rep := range reps {
				one(pi, rep)
			}
		}
	case in.All:
		for _, pi := range permsOf(n) {
			one(pi, "dense")
			if n <= 6 {
				one(pi, "sparse")
			}
		}
		one(identity(n), "sparse")
	default:
		r := rand.New(rand.NewSource(in.Seed))
		one(identity(n), "dense")
		one(identity(n), "sparse")
		for i := 0; i < in.Samples; i++ {
			one(r.Perm(n), reps[i%2])
		}
	}
	if len(wit) > 6 {
		wit, codeList = wit[:6], codeList[:6]
	}
	return tr.E{"ev": "CanonSum", "g": in.G, "tried": tried, "codes": codeList, "wit": wit, "res": res, "classes": in.Classes,
		"nt": in.G.N >= 3 && len(in.G.E) > 0}
}

type fullRes struct {
	Perm   []int   `json:"perm"`
	Orbits [][]int `json:"orbits"`
	Gens   [][]int `json:"gens"`
}

func packFull(perm []int, orb disjoint.Set, gens [][]int) fullRes {
	f := fullRes{Perm: cp(perm), Orbits: [][]int{}, Gens: [][]int{}}
	if orb != nil {
		c := append(disjoint.Set{}, orb...)
		f.Orbits = c.Sets()
	}
	for _, g := range gens {
		f.Gens = append(f.Gens, cp(g))
	}
	return f
}

func canonFull(in canonIn) tr.E {
	pi := in.Pi
	if len(pi) != in.G.N {
		pi = identity(in.G.N)
	}
	cls := mapClasses(in.Classes, pi)
	// the known automorphisms in the labelling of the relabelled graph: new vertex i is old pi[i]
	inv := make([]int, len(pi))
	for i, v := range pi {
		inv[v] = i
	}
	known := [][]int{}
	for _, a := range in.Known {
		b := make([]int, len(pi))
		for i := range pi {
			b[i] = inv[a[pi[i]]]
		}
		known = append(known, b)
	}
	var f fullRes
	res := obs.Safe(func() {
		h := relabelled(in.Rep, in.G, pi)
		inCall(in, func() { f = packFull(graph.CanonicalIsomorphFull(h, cls)) })
	})
	if f.Perm == nil {
		f = fullRes{Perm: []int{}, Orbits: [][]int{}, Gens: [][]int{}}
	}
	c := [][]int{}
	if cls != nil {
		c = cls
	}
	return tr.E{"ev": "CanonFull", "g": in.G, "pi": pi, "classes": c, "perm": f.Perm, "orbits": f.Orbits, "gens": f.Gens,
		"reused": false, "fresh": f, "bf": in.G.N <= 8, "res": res, "known": known, "order": in.Order}
}

// canonReuse pushes a sequence of graphs through ONE storage / partition pair and, for each, also makes a fresh call.
func canonReuse(w *tr.W, in canonIn) {
	capN := in.Cap
	storage := graph.NewStorage(capN, capN*(capN-1)/2)
	op := graph.NewOrderedPartition(capN, capN*(capN-1)/2, nil)
	for k, gj := range in.Seq {
		var reused, fresh fullRes
		var cls [][]int
		if k < len(in.SeqCls) && len(in.SeqCls[k]) > 0 {
			cls = in.SeqCls[k]
		}
		res := obs.Safe(func() {
			h := graphOfJ("dense", gj)
			n, m := h.N(), h.M()
			nb := make([][]int, n)
			for i := range nb {
				nb[i] = h.Neighbours(i)
			}
			fresh = packFull(graph.CanonicalIsomorphFull(h, cls))
			op.Reset(n, m, cls)
			reused = packFull(graph.CanonicalIsomorphAllocated(n, m, nb, op, storage, new(graph.CanonicalOptions)))
		})
		if reused.Perm == nil {
			reused = fullRes{Perm: []int{}, Orbits: [][]int{}, Gens: [][]int{}}
		}
		if fresh.Perm == nil {
			fresh = fullRes{Perm: []int{}, Orbits: [][]int{}, Gens: [][]int{}}
		}
		ec := [][]int{}
		if cls != nil {
			ec = cls
		}
		w.Emit(tr.E{"ev": "CanonFull", "g": gj, "pi": identity(gj.N), "classes": ec, "perm": reused.Perm, "orbits": reused.Orbits,
			"gens": reused.Gens, "reused": true, "fresh": fresh, "bf": gj.N <= 8, "res": res, "known": [][]int{}, "order": 0})
		if res != "ok" {
			return
		}
	}
}

var classRepCache = map[int][]gJ{}

// classReps: one graph per isomorphism class, taken from search.All purely as INPUTS.
func classReps(n int) []gJ {
	if r, ok := classRepCache[n]; ok {
		return r
	}
	var out []gJ
	it := search.All(n, 0, 1)
	for it.Next() {
		out = append(out, gJOf(it.Value()))
	}
	classRepCache[n] = out
	return out
}

func disjointUnion(a, b gJ) gJ {
	e := cp(a.E)
	for _, r := range b.E {
		i, j := obs.RankToPair(r)
		e = append(e, obs.PairToRank(i+a.N, j+a.N))
	}
	sort.Ints(e)
	return gJ{N: a.N + b.N, E: e}
}

// structuredGraph: a random graph with automorphisms, 9..16 vertices: a disjoint union of small named pieces (some of them twice),
// possibly complemented, possibly with one further vertex joined to a random subset.
func structuredGraph(r *rand.Rand) gJ {
	piece := func() gJ {
		switch r.Intn(11) {
		case 0:
			return gJOf(graph.Cycle(3 + r.Intn(5)))
		case 1:
			return gJOf(graph.Path(1 + r.Intn(4)))
		case 2:
			return gJOf(graph.CompleteGraph(1 + r.Intn(4)))
		case 3:
			return gJOf(graph.Star(2 + r.Intn(4)))
		case 4:
			return gJOf(graph.CompletePartiteGraph(1+r.Intn(3), 1+r.Intn(3)))
		case 5:
			return gJOf(graph.GeneralisedPetersenGraph(3+r.Intn(2), 1))
		case 6:
			return gJOf(graph.HypercubeGraph(1 + r.Intn(3)))
		case 7:
			return gJOf(graph.CirculantGraph(5+r.Intn(4), 1, 2))
		case 8:
			return gJOf(graph.FriendshipGraph(2 + r.Intn(2)))
		case 9:
			return gJOf(graph.RandomTree(2+r.Intn(6), r.Int63()))
		}
		return randGraphJ(r, 3+r.Intn(4), 0.5)
	}
	for {
		u := gJ{N: 0}
		for u.N < 9 {
			p := piece()
			u = disjointUnion(u, p)
			if r.Intn(3) == 0 {
				u = disjointUnion(u, p)
			}
		}
		if u.N > 16 {
			continue
		}
		g := graphOfJ("dense", u)
		if r.Intn(2) == 0 {
			g = graph.ComplementDense(g)
		}
		if r.Intn(4) == 0 && g.N() < 16 {
			nb := []int{}
			for v := 0; v < g.N(); v++ {
				if r.Intn(2) == 0 {
					nb = append(nb, v)
				}
			}
			g.AddVertex(nb)
		}
		return gJOf(g)
	}
}

// cycleUnion: the disjoint union of cycles of the given lengths (equal lengths adjacent), generators of its automorphism group
// (rotation and reflection of every cycle, swap of each adjacent pair of equal cycles) and the order of that group.
func cycleUnion(lens []int) (u gJ, known [][]int, order int) {
	n := 0
	offs := []int{}
	for _, l := range lens {
		offs = append(offs, n)
		u = disjointUnion(u, gJOf(graph.Cycle(l)))
		n += l
	}
	order = 1
	mult := 1
	for k, l := range lens {
		rot, refl := identity(n), identity(n)
		for i := 0; i < l; i++ {
			rot[offs[k]+i] = offs[k] + (i+1)%l
			refl[offs[k]+i] = offs[k] + (l-i)%l
		}
		known = append(known, rot, refl)
		order *= 2 * l
		if k > 0 && lens[k-1] == l {
			sw := identity(n)
			for i := 0; i < l; i++ {
				sw[offs[k]+i], sw[offs[k-1]+i] = offs[k-1]+i, offs[k]+i
			}
			known = append(known, sw)
			mult++
			order *= mult
		} else {
			mult = 1
		}
	}
	return
}

func hardGraphs() map[string]gJ {
	h := map[string]gJ{}
	put := func(name string, g graph.Graph) { h[name] = gJOf(g) }
	put("petersen", graph.GeneralisedPetersenGraph(5, 2))
	put("cube3", graph.HypercubeGraph(3))
	put("cube4", graph.HypercubeGraph(4))
	put("kneser62", graph.KneserGraph(6, 2))
	put("paley13", graph.CirculantGraph(13, 1, 3, 4))
	put("paley17", graph.CirculantGraph(17, 1, 2, 4, 8))
	put("rook33", graph.RookGraph(3, 3))
	put("rook44", graph.RookGraph(4, 4))
	put("k33", graph.CompletePartiteGraph(3, 3))
	put("k44", graph.CompletePartiteGraph(4, 4))
	put("k222", graph.CompletePartiteGraph(2, 2, 2))
	put("c12", graph.Cycle(12))
	put("snark3", graph.FlowerSnark(3))
	put("snark5", graph.FlowerSnark(5))
	put("friend4", graph.FriendshipGraph(4))
	put("clebsch", graph.FoldedHypercubeGraph(5))
	put("gp83", graph.GeneralisedPetersenGraph(8, 3))
	put("dodeca", graph.GeneralisedPetersenGraph(10, 2))
	// Shrikhande graph: Cayley graph of Z4 x Z4 with connection set +-(1,0), +-(0,1), +-(1,1)
	sh := graph.NewDense(16, nil)
	for a := 0; a < 4; a++ {
		for b := 0; b < 4; b++ {
			for _, d := range [][2]int{{1, 0}, {0, 1}, {1, 1}} {
				sh.AddEdge(4*a+b, 4*((a+d[0])%4)+(b+d[1])%4)
			}
		}
	}
	put("shrikhande", sh)
	h["2xc4"] = disjointUnion(gJOf(graph.Cycle(4)), gJOf(graph.Cycle(4)))
	h["3xk3"] = disjointUnion(disjointUnion(gJOf(graph.CompleteGraph(3)), gJOf(graph.CompleteGraph(3))), gJOf(graph.CompleteGraph(3)))
	h["2xpetersen"] = disjointUnion(h["petersen"], h["petersen"])
	h["c5+c5+k1"] = disjointUnion(disjointUnion(gJOf(graph.Cycle(5)), gJOf(graph.Cycle(5))), gJ{N: 1})
	h["p4+p4"] = disjointUnion(gJOf(graph.Path(4)), gJOf(graph.Path(4)))
	// larger vertex-transitive / regular graphs: cells of more than 20 vertices (merge sort path of the refinement)
	put("rook55", graph.RookGraph(5, 5))
	put("kneser72", graph.KneserGraph(7, 2))
	put("cube5", graph.HypercubeGraph(5))
	put("folded6", graph.FoldedHypercubeGraph(6))
	put("paley29", graph.CirculantGraph(29, 1, 4, 5, 6, 7, 9, 13))
	put("circ25", graph.CirculantGraph(25, 1, 2))
	put("circ30", graph.CirculantGraph(30, 1, 3, 5))
	put("gp125", graph.GeneralisedPetersenGraph(12, 5))
	h["2xsnark3"] = disjointUnion(h["snark3"], h["snark3"])
	h["3xpetersen"] = disjointUnion(h["2xpetersen"], h["petersen"])
	h["2xgp83"] = disjointUnion(h["gp83"], h["gp83"])
	h["petersen+dodeca"] = disjointUnion(h["petersen"], h["dodeca"])
	// 2-regular graphs made of cycles of different lengths: ONE cell of >= 24 vertices that refinement cannot split, several kinds of orbit
	// in it (long sorts of certificate segments and of merged cells; target cells with orbits of different sizes)
	union := func(parts ...graph.Graph) gJ {
		u := gJ{N: 0}
		for _, p := range parts {
			u = disjointUnion(u, gJOf(p))
		}
		return u
	}
	h["c7+c8+c9"] = union(graph.Cycle(7), graph.Cycle(8), graph.Cycle(9))
	h["c5+c6+c7+c8"] = union(graph.Cycle(5), graph.Cycle(6), graph.Cycle(7), graph.Cycle(8))
	h["6xc5"] = union(graph.Cycle(5), graph.Cycle(5), graph.Cycle(5), graph.Cycle(5), graph.Cycle(5), graph.Cycle(5))
	h["k3+c4+c4"] = union(graph.CompleteGraph(3), graph.Cycle(4), graph.Cycle(4))
	h["k3+c4+c5"] = union(graph.CompleteGraph(3), graph.Cycle(4), graph.Cycle(5))
	h["c3+c4+c5+c5"] = union(graph.Cycle(3), graph.Cycle(4), graph.Cycle(5), graph.Cycle(5)) // its complement: the smallest known witness of the current-best orbit defect (fixed in 533abb7)
	h["c3+c5+c5+c6"] = union(graph.Cycle(3), graph.Cycle(5), graph.Cycle(5), graph.Cycle(6))
	h["c4+c5+c6+c7"] = union(graph.Cycle(4), graph.Cycle(5), graph.Cycle(6), graph.Cycle(7))
	h["3xc3+2xc4+c9"] = union(graph.Cycle(3), graph.Cycle(3), graph.Cycle(3), graph.Cycle(4), graph.Cycle(4), graph.Cycle(9))
	// complements: dense regular graphs whose refinement counts are >= 2
	for _, nm := range []string{"c3+c4+c5+c5", "c3+c5+c5+c6", "c4+c5+c6+c7", "c7+c8+c9", "c5+c6+c7+c8", "6xc5", "k3+c4+c5", "3xc3+2xc4+c9", "petersen", "snark3", "snark5", "2xpetersen", "2xsnark3", "3xpetersen", "2xgp83", "c12", "rook44", "cube4", "shrikhande", "dodeca", "circ25", "gp125", "kneser72"} {
		g := h[nm]
		h["co-"+nm] = gJOf(graph.ComplementDense(graphOfJ("dense", g)))
	}
	// the two 8-vertex graphs on which the pinned tree's orbit pruning was unsound
	if g, err := graph.Graph6Decode("G|WW}K"); err == nil {
		h["G|WW}K"] = gJOf(g)
	}
	if g, err := graph.Graph6Decode("GhcqSK"); err == nil {
		h["GhcqSK"] = gJOf(g)
	}
	return h
}

// orderedSetPartitions of 0..n-1 into non-empty classes (each class ascending).
func orderedSetPartitions(n int) [][][]int {
	var out [][][]int
	var rec func(v int, cur [][]int)
	rec = func(v int, cur [][]int) {
		if v == n {
			// all orderings of the blocks
			idx := permsOf(len(cur))
			for _, p := range idx {
				o := make([][]int, len(cur))
				for i, k := range p {
					o[i] = cp(cur[k])
				}
				out = append(out, o)
			}
			return
		}
		for i := range cur {
			cur[i] = append(cur[i], v)
			rec(v+1, cur)
			cur[i] = cur[i][:len(cur[i])-1]
		}
		rec(v+1, append(cur, []int{v}))
	}
	rec(0, nil)
	return out
}

func canonGrid(c *Ctx, prop string) []canonIn {
	big := c.Thorough()
	r := rand.New(rand.NewSource(c.Seed))
	var out []canonIn
	add := func(in canonIn) { out = append(out, in) }
	hard := hardGraphs()
	names := []string{}
	for k := range hard {
		names = append(names, k)
	}
	sort.Strings(names)
	if prop == "C01" {
		for n := 0; n <= 5; n++ { // every labelled graph, every relabelling: exhaustive
			for _, gj := range allGraphsJ(n) {
				add(canonIn{Kind: "sum", Name: "all", G: gj, All: true})
			}
		}
		for n := 6; n <= 7; n++ {
			for _, gj := range classReps(n) {
				add(canonIn{Kind: "sum", Name: fmt.Sprintf("class%d", n), G: gj, All: true})
			}
		}
		s8 := 48
		for i, gj := range classReps(8) {
			if big {
				add(canonIn{Kind: "sum", Name: "class8", G: gj, All: true})
			} else {
				add(canonIn{Kind: "sum", Name: "class8", G: gj, Samples: s8, Seed: c.Seed*100003 + int64(i)})
			}
		}
		if big {
			for i, gj := range classReps(9) {
				if i%9 == int(c.Seed%9) {
					add(canonIn{Kind: "sum", Name: "class9", G: gj, Samples: 400, Seed: c.Seed*7 + int64(i)})
				}
			}
		}
		hs := 200
		if big {
			hs = 5000
		}
		for _, nm := range names {
			g := hard[nm]
			if g.N <= 8 {
				add(canonIn{Kind: "sum", Name: nm, G: g, All: true})
			} else {
				add(canonIn{Kind: "sum", Name: nm, G: g, Samples: hs, Seed: c.Seed + 11})
			}
		}
		// white box: the search-tree events of single calls (hook), judged against Canon.tla's rules by CanonTrace.JudgeWB
		for n := 2; n <= 6; n++ {
			for _, gj := range classReps(n) {
				add(canonIn{Kind: "wb", Name: fmt.Sprintf("class%d", n), G: gj, Pi: r.Perm(n), Rep: "dense"})
			}
		}
		nwb7, nwb8 := 150, 40
		if big {
			nwb7, nwb8 = 1044, 400
		}
		c7, c8 := classReps(7), classReps(8)
		for i := 0; i < nwb7; i++ {
			add(canonIn{Kind: "wb", Name: "class7", G: c7[(i*7+int(c.Seed))%len(c7)], Pi: r.Perm(7), Rep: []string{"dense", "sparse"}[i%2]})
		}
		for i := 0; i < nwb8; i++ {
			add(canonIn{Kind: "wb", Name: "class8", G: c8[r.Intn(len(c8))], Pi: r.Perm(8), Rep: "dense"})
		}
		for _, nm := range []string{"G|WW}K", "GhcqSK", "cube3", "2xc4", "k44", "k222", "3xk3", "p4+p4", "rook33"} {
			for t := 0; t < 6; t++ {
				add(canonIn{Kind: "wb", Name: nm, G: hard[nm], Pi: r.Perm(hard[nm].N), Rep: "dense"})
			}
		}
		// white box beyond the reach of brute-force Aut(g): unions of cycles and their complements, Aut generated from rotations,
		// reflections and swaps of equal cycles (order = prod over lengths l with multiplicity m of (2l)^m m!)
		wbk := [][]int{{3, 4, 4}, {3, 3, 4}}
		if big {
			wbk = append(wbk, []int{3, 4, 5, 5}) // the witness of defect 533abb7: |Aut| = 9600, about 4 minutes of TLC per call
		}
		for _, lens := range wbk {
			u, known, order := cycleUnion(lens)
			co := gJOf(graph.ComplementDense(graphOfJ("dense", u)))
			for t := 0; t < 2 && (t == 0 || u.N < 15); t++ {
				add(canonIn{Kind: "wb", Name: "cycles", G: u, Known: known, Order: order, Pi: r.Perm(u.N), Rep: "dense"})
				add(canonIn{Kind: "wb", Name: "co-cycles", G: co, Known: known, Order: order, Pi: r.Perm(u.N), Rep: "dense"})
			}
		}
		for _, n := range []int{25, 40, 60} { // sizes that reach the merge sort / quicksort paths
			for _, p := range []float64{0.1, 0.5, 0.9} {
				add(canonIn{Kind: "sum", Name: "gnp", G: randGraphJ(r, n, p), Samples: 20, Seed: c.Seed + int64(n)})
			}
		}
		return out
	}
	// C02
	for n := 0; n <= 5; n++ {
		for _, gj := range allGraphsJ(n) {
			if n == 5 && !big && r.Intn(4) != 0 {
				continue
			}
			add(canonIn{Kind: "full", Name: "all", G: gj, Rep: []string{"dense", "sparse"}[len(out)%2]})
		}
	}
	for n := 6; n <= 7; n++ {
		for _, gj := range classReps(n) {
			add(canonIn{Kind: "full", Name: fmt.Sprintf("class%d", n), G: gj, Pi: r.Perm(n), Rep: "dense"})
			if big {
				add(canonIn{Kind: "full", Name: fmt.Sprintf("class%d", n), G: gj, Pi: r.Perm(n), Rep: "sparse"})
			}
		}
	}
	n8 := 40
	if big {
		n8 = 600
	}
	reps8 := classReps(8)
	for i := 0; i < n8; i++ {
		add(canonIn{Kind: "full", Name: "class8", G: reps8[r.Intn(len(reps8))], Pi: r.Perm(8), Rep: "dense"})
	}
	for _, nm := range names {
		g := hard[nm]
		add(canonIn{Kind: "full", Name: nm, G: g, Pi: r.Perm(g.N), Rep: "dense"})
		add(canonIn{Kind: "full", Name: nm, G: g, Rep: "sparse"})
	}
	// vertex classes: every ordered partition into classes for n <= 4 (5 thorough, sampled), plus the canonical-form clause
	cn := 4
	for n := 1; n <= cn; n++ {
		parts := orderedSetPartitions(n)
		for _, gj := range allGraphsJ(n) {
			for _, cls := range parts {
				add(canonIn{Kind: "full", Name: "classes", G: gj, Classes: cls, Rep: "dense"})
				if len(cls) > 1 {
					add(canonIn{Kind: "sum", Name: "classes", G: gj, Classes: cls, All: true})
				}
			}
		}
	}
	parts5, parts6 := orderedSetPartitions(5), orderedSetPartitions(6)
	nc := 300
	if big {
		nc = 3000
	}
	for i := 0; i < nc; i++ {
		if i%2 == 0 {
			g5 := allGraphsJ(5)
			add(canonIn{Kind: "full", Name: "classes5", G: g5[r.Intn(len(g5))], Classes: parts5[r.Intn(len(parts5))], Pi: r.Perm(5), Rep: "dense"})
		} else {
			c6 := classReps(6)
			cls := parts6[r.Intn(len(parts6))]
			gj := c6[r.Intn(len(c6))]
			add(canonIn{Kind: "full", Name: "classes6", G: gj, Classes: cls, Pi: r.Perm(6), Rep: "sparse"})
			add(canonIn{Kind: "sum", Name: "classes6", G: gj, Classes: cls, Samples: 30, Seed: int64(i)})
		}
	}
	// vertex classes on the hard graphs (10..30 vertices): relabellings (which also permute the listing of every class) must give one
	// canonical object; classes cut across the orbits, so the class-aware parts of the search meet cells with several kinds of orbit
	{
		hard := hardGraphs()
		names := []string{"petersen", "cube4", "3xk3", "c3+c4+c5+c5", "co-c3+c4+c5+c5", "rook44", "co-c12"}
		if big {
			names = append(names, "cube3", "2xpetersen", "c7+c8+c9", "co-c5+c6+c7+c8", "k44", "snark5")
		}
		for _, nm := range names {
			g := hard[nm]
			for t := 0; t < 2; t++ {
				k := 2 + t%2
				cls := make([][]int, k)
				for v := 0; v < g.N; v++ {
					c := r.Intn(k)
					cls[c] = append(cls[c], v)
				}
				var cs [][]int
				for _, c := range cls {
					if len(c) > 0 {
						cs = append(cs, c)
					}
				}
				add(canonIn{Kind: "sum", Name: "classes-" + nm, G: g, Classes: cs, Samples: 30, Seed: int64(t)})
			}
		}
	}
	add(canonIn{Kind: "full", Name: "c6-classes", G: gJOf(graph.Cycle(6)), Classes: [][]int{{0}, {1, 2, 3, 4, 5}}, Rep: "dense"})
	add(canonIn{Kind: "full", Name: "edgeless-classes", G: gJ{N: 4}, Classes: [][]int{{0, 1}, {2, 3}}, Rep: "dense"})
	// families whose automorphisms are known by construction, at sizes around the block size of the refinement sort (20, 40)
	for _, n := range []int{9, 12, 19, 20, 21, 22, 40, 41, 42, 45} {
		refl := make([]int, n)
		rot := make([]int, n)
		for i := range refl {
			refl[i] = n - 1 - i
			rot[i] = (i + 1) % n
		}
		add(canonIn{Kind: "full", Name: "path", G: gJOf(graph.Path(n)), Known: [][]int{refl}, Rep: "dense", Pi: r.Perm(n)})
		add(canonIn{Kind: "full", Name: "path", G: gJOf(graph.Path(n)), Known: [][]int{refl}, Rep: "sparse"})
		add(canonIn{Kind: "full", Name: "cycle", G: gJOf(graph.Cycle(n)), Known: [][]int{rot, refl}, Rep: "dense", Pi: r.Perm(n)})
		add(canonIn{Kind: "full", Name: "circulant", G: gJOf(graph.CirculantGraph(n, 1, 3)), Known: [][]int{rot, refl}, Rep: "sparse"})
		star := identity(n)
		star[1], star[n-1] = n-1, 1
		cyc := identity(n)
		for i := 1; i < n; i++ {
			cyc[i] = 1 + i%(n-1)
		}
		add(canonIn{Kind: "full", Name: "star", G: gJOf(graph.Star(n)), Known: [][]int{star, cyc}, Rep: "dense", Pi: r.Perm(n)})
		// two copies of a path: swap the copies
		pp := disjointUnion(gJOf(graph.Path(n)), gJOf(graph.Path(n)))
		swap := make([]int, 2*n)
		for i := 0; i < n; i++ {
			swap[i], swap[n+i] = n+i, i
		}
		add(canonIn{Kind: "full", Name: "2xpath", G: pp, Known: [][]int{swap}, Rep: "dense", Pi: r.Perm(2 * n)})
	}
	// random structured graphs on 9..16 vertices: too large for brute-force Aut(g); judged by "generators are automorphisms" and
	// "returned orbits = orbits of the returned generators" (the two outputs are computed by different code paths)
	nstruct := 700
	if big {
		nstruct = 5000
	}
	for i := 0; i < nstruct; i++ {
		g := structuredGraph(r)
		add(canonIn{Kind: "full", Name: "structured", G: g, Rep: []string{"dense", "sparse"}[i%2], Pi: r.Perm(g.N)})
	}
	// disjoint unions of cycles and their complements (same automorphism group): rotations and reflections of every cycle and swaps of
	// equal cycles are known; one cell that refinement cannot split, orbits of different sizes in it (the family of defect 533abb7)
	for _, lens := range [][]int{{3, 4, 4}, {3, 3, 4}, {4, 5, 5}, {5, 5, 6}, {3, 4, 5, 5}, {3, 5, 5, 6}, {4, 5, 6, 7}, {5, 6, 7, 8}, {7, 8, 9}, {3, 3, 4, 4, 6}, {5, 5, 5, 5, 5, 5}, {3, 3, 3, 4, 4, 9}} {
		u, known, order := cycleUnion(lens)
		n := u.N
		limit := 5000 // the acceptor closes the returned generators under composition: only for groups it can enumerate
		if big {
			limit = 15000
		}
		if order > limit {
			order = 0
		}
		co := gJOf(graph.ComplementDense(graphOfJ("dense", u)))
		for t := 0; t < 3; t++ {
			o := order
			if t > 0 && order > 1000 {
				o = 0
			}
			add(canonIn{Kind: "full", Name: "cycles", G: u, Known: known, Order: o, Rep: []string{"dense", "sparse"}[t%2], Pi: r.Perm(n)})
			add(canonIn{Kind: "full", Name: "co-cycles", G: co, Known: known, Order: o, Rep: []string{"sparse", "dense"}[t%2], Pi: r.Perm(n)})
		}
	}
	// reuse: every (previous kind and size) -> (next kind and size) pair through one storage, with and without vertex classes
	kindOf := func(k, n int) gJ {
		switch k {
		case 0:
			return gJ{N: n}
		case 1:
			return gJOf(graph.CompleteGraph(n))
		case 2:
			if n >= 3 {
				return gJOf(graph.Cycle(n))
			}
			return gJOf(graph.Path(n))
		case 3:
			return gJOf(graph.Path(n))
		}
		return randGraphJ(r, n, 0.5)
	}
	clsOf := func(n int) [][]int {
		if n < 2 || r.Intn(2) == 0 {
			return nil
		}
		switch r.Intn(3) {
		case 0: // vertex 0 alone
			rest := []int{}
			for v := 1; v < n; v++ {
				rest = append(rest, v)
			}
			return [][]int{{0}, rest}
		case 1: // last vertex alone, first
			rest := []int{}
			for v := 0; v < n-1; v++ {
				rest = append(rest, v)
			}
			return [][]int{{n - 1}, rest}
		}
		a, b := []int{}, []int{}
		for v := 0; v < n; v++ {
			if v%2 == 0 {
				a = append(a, v)
			} else {
				b = append(b, v)
			}
		}
		return [][]int{a, b}
	}
	for ka := 0; ka < 5; ka++ {
		for _, a := range []int{1, 2, 4, 5, 8} {
			for kb := 0; kb < 5; kb++ {
				for _, b := range []int{0, 1, 2, 3, 5, 8} {
					add(canonIn{Kind: "reuse", Name: "kindpair", Seq: []gJ{kindOf(ka, a), kindOf(kb, b)}, SeqCls: [][][]int{nil, clsOf(b)}, Cap: 8})
				}
			}
		}
	}
	// reuse: sequences of graphs of sizes going up and down through one storage
	kinds := func(n int) gJ {
		switch r.Intn(5) {
		case 0:
			return gJ{N: n} // edgeless: the m = 0 shortcut
		case 1:
			return gJOf(graph.CompleteGraph(n))
		case 2:
			if n >= 3 {
				return gJOf(graph.Cycle(n))
			}
			return gJ{N: n}
		default:
			return randGraphJ(r, n, []float64{0.3, 0.5}[r.Intn(2)])
		}
	}
	ns := 80
	if big {
		ns = 800
	}
	sizes := []int{0, 1, 2, 3, 5, 8}
	for i := 0; i < ns; i++ {
		var seq []gJ
		for k := 0; k < 6; k++ {
			seq = append(seq, kinds(sizes[r.Intn(len(sizes))]))
		}
		add(canonIn{Kind: "reuse", Name: "seq", Seq: seq, Cap: 8})
	}
	for _, a := range sizes { // every (previous size, next size) pair explicitly
		for _, b := range sizes {
			add(canonIn{Kind: "reuse", Name: "pair", Seq: []gJ{kinds(a), kinds(b), kinds(a)}, Cap: 8})
		}
	}
	return out
}

func driveCanon(c *Ctx, prop string) {
	set := tr.NewSet(c.Out, "trace", c.Shards)
	meta := map[string]interface{}{}
	finish := func() {
		meta["segments"] = set.Segs
		meta["events"] = set.Close()
		tr.WriteJSON(c.Out+"/meta.json", meta)
	}
	var grid []canonIn
	if c.In != "" {
		for _, raw := range readInputs(c.In) {
			var in canonIn
			if err := json.Unmarshal(raw, &in); err != nil {
				panic(err)
			}
			grid = append(grid, in)
		}
	} else {
		grid = canonGrid(c, prop)
	}
	// the relabelling sweeps run in parallel (one graph per task); events are written in grid order
	evs := make([]tr.E, len(grid))
	var evMu sync.Mutex
	callStart = make([]int64, len(grid))
	for i := range grid {
		grid[i].idx = i
	}
	const callLimit = 150 * time.Second // a single labelling of a graph on <= 60 vertices takes well under 10 s even on a loaded machine
	go func() {
		for {
			time.Sleep(2 * time.Second)
			now := time.Now().UnixNano()
			for i := range callStart {
				if st := atomic.LoadInt64(&callStart[i]); st != 0 && now-st > int64(callLimit) {
					// report what is finished and the call that does not return, then leave (the stuck goroutine cannot be stopped)
					evMu.Lock()
					in := grid[i]
					for k, e := range evs {
						if e == nil || k == i {
							continue
						}
						set.Begin(grid[k].key(), tr.E{"input": grid[k]}).Emit(e)
					}
					cls := in.Classes
					if cls == nil {
						cls = [][]int{}
					}
					set.Begin(in.key(), tr.E{"input": in}).Emit(tr.E{"ev": "CanonSum", "g": in.G, "tried": 0, "codes": [][]int{}, "wit": []witness{},
						"res": fmt.Sprintf("timeout: the canonical labelling did not return within %v", callLimit), "classes": cls, "nt": false})
					meta["timed_out"] = true
					finish()
					os.Exit(0)
				}
			}
		}
	}()
	var wg sync.WaitGroup
	sem := make(chan struct{}, runtime.NumCPU())
	for i := range grid {
		in := grid[i] // carries idx
		if in.Kind == "reuse" || in.Kind == "wb" {
			continue
		}
		wg.Add(1)
		sem <- struct{}{}
		go func(i int, in canonIn) {
			defer wg.Done()
			defer func() { <-sem }()
			var e tr.E
			if in.Kind == "sum" {
				e = canonSum(in)
			} else {
				e = canonFull(in)
			}
			evMu.Lock()
			evs[i] = e
			evMu.Unlock()
		}(i, in)
	}
	wg.Wait()
	for i, in := range grid { // the tracer hook is a package variable: white-box calls run one at a time, after the parallel sweeps
		if in.Kind == "wb" {
			evs[i] = canonWB(in)
		}
	}
	kinds := map[string]int{}
	rel := 0
	for i, in := range grid {
		kinds[in.Kind+":"+in.Name]++
		w := set.Begin(in.key(), tr.E{"input": in})
		if in.Kind == "reuse" {
			canonReuse(w, in)
			continue
		}
		if t, ok := evs[i]["tried"].(int); ok {
			rel += t
		}
		w.Emit(evs[i])
	}
	meta["inputs"] = kinds
	meta["relabellings"] = rel
	finish()
}
