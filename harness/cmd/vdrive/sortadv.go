package main

// An adversarial input for ints.Sort (McIlroy, "A Killer Adversary for Quicksort", 1999).  ints.Sort is a
// transcription of the pre-pdqsort sort.Sort; the code below is the same control flow over an array of
// item indices whose comparisons are answered by the adversary.  The frozen answers are an input on which
// the same deterministic algorithm repeats the same comparisons, exhausts its depth budget and falls back
// to heapsort - a branch random inputs practically never reach.  Used only to GENERATE inputs.

type adversary struct {
	val       []int
	gas       int
	nsolid    int
	candidate int
	heap      bool
}

func (a *adversary) less(x, y int) bool {
	if a.val[x] == a.gas && a.val[y] == a.gas {
		if x == a.candidate {
			a.val[x] = a.nsolid
		} else {
			a.val[y] = a.nsolid
		}
		a.nsolid++
	}
	if a.val[x] == a.gas {
		a.candidate = x
	} else if a.val[y] == a.gas {
		a.candidate = y
	}
	return a.val[x] < a.val[y]
}

func (a *adversary) med3(d []int, m1, m0, m2 int) {
	if a.less(d[m1], d[m0]) {
		d[m1], d[m0] = d[m0], d[m1]
	}
	if a.less(d[m2], d[m1]) {
		d[m2], d[m1] = d[m1], d[m2]
		if a.less(d[m1], d[m0]) {
			d[m1], d[m0] = d[m0], d[m1]
		}
	}
}

func (a *adversary) doPivot(d []int, lo, hi int) (int, int) {
	m := int(uint(lo+hi) >> 1)
	if hi-lo > 40 {
		s := (hi - lo) / 8
		a.med3(d, lo, lo+s, lo+2*s)
		a.med3(d, m, m-s, m+s)
		a.med3(d, hi-1, hi-1-s, hi-1-2*s)
	}
	a.med3(d, lo, m, hi-1)
	pivot := lo
	x, c := lo+1, hi-1
	for ; x < c && a.less(d[x], d[pivot]); x++ {
	}
	b := x
	for {
		for ; b < c && !a.less(d[pivot], d[b]); b++ {
		}
		for ; b < c && a.less(d[pivot], d[c-1]); c-- {
		}
		if b >= c {
			break
		}
		d[b], d[c-1] = d[c-1], d[b]
		b++
		c--
	}
	protect := hi-c < 5
	if !protect && hi-c < (hi-lo)/4 {
		dups := 0
		if !a.less(d[pivot], d[hi-1]) {
			d[c], d[hi-1] = d[hi-1], d[c]
			c++
			dups++
		}
		if !a.less(d[b-1], d[pivot]) {
			b--
			dups++
		}
		if !a.less(d[m], d[pivot]) {
			d[m], d[b-1] = d[b-1], d[m]
			b--
			dups++
		}
		protect = dups > 1
	}
	if protect {
		for {
			for ; x < b && !a.less(d[b-1], d[pivot]); b-- {
			}
			for ; x < b && a.less(d[x], d[pivot]); x++ {
			}
			if x >= b {
				break
			}
			d[x], d[b-1] = d[b-1], d[x]
			x++
			b--
		}
	}
	d[pivot], d[b-1] = d[b-1], d[pivot]
	return b - 1, c
}

func (a *adversary) simple(d []int, lo, hi int) {
	for i := lo + 1; i < hi; i++ {
		for j := i; j > lo && a.less(d[j], d[j-1]); j-- {
			d[j], d[j-1] = d[j-1], d[j]
		}
	}
}

func (a *adversary) quick(d []int, lo, hi, depth int) {
	for hi-lo > 12 {
		if depth == 0 {
			a.heap = true
			a.simple(d, lo, hi) // the answers given from here on do not matter for reaching heapsort
			return
		}
		depth--
		mlo, mhi := a.doPivot(d, lo, hi)
		if mlo-lo < hi-mhi {
			a.quick(d, lo, mlo, depth)
			lo = mhi
		} else {
			a.quick(d, mhi, hi, depth)
			hi = mlo
		}
	}
	if hi-lo > 1 {
		for i := lo + 6; i < hi; i++ {
			if a.less(d[i], d[i-6]) {
				d[i], d[i-6] = d[i-6], d[i]
			}
		}
		a.simple(d, lo, hi)
	}
}

// sortAdversary returns an input of length n that drives the transcribed quicksort into its heapsort
// fallback, and whether the transcription reached it.
func sortAdversary(n int) ([]int, bool) {
	a := &adversary{val: make([]int, n), gas: n}
	d := make([]int, n)
	for i := range d {
		a.val[i] = a.gas
		d[i] = i
	}
	depth := 0
	for i := n; i > 0; i >>= 1 {
		depth++
	}
	a.quick(d, 0, n, depth*2)
	out := make([]int, n)
	copy(out, a.val)
	return out, a.heap
}
