package main

// C13: Search on a finished Dawg with real searchers wrapped by a recording Searcher.

import (
	"fmt"
	"math/rand"
	"reflect"

	"github.com/Tom-Johnston/mamba/dawg"

	"verifharness/internal/obs"
	"verifharness/internal/tr"
)

type searchIn struct {
	Kind  string `json:"kind"` // "pattern" | "anagram"
	Arg   []int  `json:"arg"`
	Blank int    `json:"blank"`
}

type protoCall struct {
	Op string `json:"op"` // A AllowStep, S Step, B Backstep, W AllowWord, C Chosen
	B  int    `json:"b"`
	R  bool   `json:"r"`
}

type recSearcher struct {
	inner dawg.Searcher
	calls []protoCall
}

func (r *recSearcher) AllowStep(b byte) bool {
	ret := r.inner.AllowStep(b)
	r.calls = append(r.calls, protoCall{"A", int(b), ret})
	return ret
}
func (r *recSearcher) Step(b byte) {
	r.inner.Step(b)
	r.calls = append(r.calls, protoCall{"S", int(b), false})
}
func (r *recSearcher) Backstep() {
	r.inner.Backstep()
	r.calls = append(r.calls, protoCall{"B", 0, false})
}
func (r *recSearcher) AllowWord() bool {
	ret := r.inner.AllowWord()
	r.calls = append(r.calls, protoCall{"W", 0, ret})
	return ret
}
func (r *recSearcher) Chosen() {
	r.inner.Chosen()
	r.calls = append(r.calls, protoCall{"C", 0, false})
}

func mkSearcher(s searchIn, arg []byte) dawg.Searcher {
	if s.Kind == "pattern" {
		return dawg.NewPatternSearcher(arg, byte(s.Blank))
	}
	return dawg.NewAnagramSearcher(arg, byte(s.Blank))
}

func sols(s [][]byte) [][]int {
	out := [][]int{}
	for _, w := range s {
		out = append(out, b2i(w))
	}
	return out
}

func runSearch(w *tr.W, d *dawg.Dawg, ss []searchIn) {
	recs := make([]*recSearcher, len(ss))
	srch := make([]dawg.Searcher, len(ss))
	// searchers built from equal arguments get the SAME byte slice (a rack used both as pattern and as anagram): the constructors only read it
	shared := map[string][]byte{}
	for i, s := range ss {
		k := fmt.Sprint(s.Arg)
		if _, ok := shared[k]; !ok {
			shared[k] = i2b(s.Arg)
		}
		recs[i] = &recSearcher{inner: mkSearcher(s, shared[k])}
		srch[i] = recs[i]
	}
	before := nodeTable(d)
	var s1, s2 [][]byte
	var i1, i2 []int
	proto := make([][]protoCall, len(ss))
	res := obs.Safe(func() {
		s1, i1 = d.Search(srch...)
		for i := range recs {
			proto[i] = recs[i].calls
			if proto[i] == nil {
				proto[i] = []protoCall{}
			}
		}
		s2, i2 = d.Search(srch...) // same searcher objects again
	})
	same := reflect.DeepEqual(before, nodeTable(d))
	argsSame := true
	for _, s := range ss {
		if !reflect.DeepEqual(b2i(shared[fmt.Sprint(s.Arg)]), append([]int{}, s.Arg...)) && len(s.Arg) > 0 {
			argsSame = false
		}
	}
	total := 0
	for _, p := range proto {
		total += len(p)
	}
	if total > 1500 {
		for i := range proto {
			proto[i] = []protoCall{}
		}
		proto = proto[:0]
	}
	if i1 == nil {
		i1 = []int{}
	}
	if i2 == nil {
		i2 = []int{}
	}
	w.Emit(tr.E{"ev": "Search", "res": res, "srch": ss, "sol": sols(s1), "ids": i1, "sol2": sols(s2), "ids2": i2, "dawg_same": same, "args_same": argsSame, "proto": proto})
}

func randArg(r *rand.Rand, alpha []int, maxLen int) []int {
	a := make([]int, r.Intn(maxLen+1))
	for i := range a {
		a[i] = alpha[r.Intn(len(alpha))]
	}
	return a
}

// searchFamilies attaches searches to the small-alphabet word sets (and a few to the dictionary samples).
func searchFamilies(c *Ctx, fams []dawgIn) []dawgIn {
	r := rand.New(rand.NewSource(c.Seed + 7))
	big := c.Thorough()
	out := []dawgIn{}
	for _, in := range fams {
		in.Gob = false
		in.Table = false
		switch in.Name {
		case "ab4", "abc3", "empty", "emptyword":
			alpha := []int{97, 98, 99, 63, 122} // a b c ? z : letters, the blank, a foreign letter
			maxAll := 2
			if big {
				maxAll = 3
			}
			var ss [][]searchIn
			for _, a := range allWords(alpha, maxAll) {
				ss = append(ss, []searchIn{{Kind: "pattern", Arg: a, Blank: 63}}, []searchIn{{Kind: "anagram", Arg: a, Blank: 63}})
			}
			nr := 30
			if big {
				nr = 120
			}
			for i := 0; i < nr; i++ {
				a, b := randArg(r, alpha, 5), randArg(r, alpha, 5)
				switch i % 6 {
				case 0: // blank byte inside the alphabet: 'b' is the wildcard
					ss = append(ss, []searchIn{{Kind: "pattern", Arg: a, Blank: 98}})
				case 1:
					ss = append(ss, []searchIn{{Kind: "anagram", Arg: a, Blank: 98}})
				case 2: // pattern AND anagram
					ss = append(ss, []searchIn{{Kind: "pattern", Arg: a, Blank: 63}, {Kind: "anagram", Arg: b[:min(len(a), len(b))], Blank: 63}})
				case 3: // two anagrams with different blanks
					ss = append(ss, []searchIn{{Kind: "anagram", Arg: a, Blank: 63}, {Kind: "anagram", Arg: a, Blank: 122}})
				case 4:
					ss = append(ss, []searchIn{{Kind: "anagram", Arg: a, Blank: 63}})
					ss = append(ss, []searchIn{{Kind: "pattern", Arg: a, Blank: 63}, {Kind: "anagram", Arg: a, Blank: 63}}) // one rack, both searchers
				default:
					ss = append(ss, []searchIn{{Kind: "pattern", Arg: a, Blank: 63}})
				}
			}
			ss = append(ss, []searchIn{}) // no searcher: every word
			in.Searches = ss
			in.Probes = nil
			out = append(out, in)
		case "crosswd-consecutive", "crosswd-scattered", "presuf", "wide":
			var ss [][]searchIn
			for i := 0; i < 25 && len(in.Adds) > 0; i++ {
				wd := cp(in.Adds[r.Intn(len(in.Adds))])
				bl := 63
				if in.Name == "wide" {
					bl = []int{0, 255, 63}[r.Intn(3)]
				}
				pat := cp(wd)
				for k := range pat {
					if r.Intn(3) == 0 {
						pat[k] = bl
					}
				}
				ana := cp(wd)
				r.Shuffle(len(ana), func(x, y int) { ana[x], ana[y] = ana[y], ana[x] })
				for k := range ana {
					if r.Intn(4) == 0 {
						ana[k] = bl
					}
				}
				ss = append(ss, []searchIn{{Kind: "pattern", Arg: pat, Blank: bl}}, []searchIn{{Kind: "anagram", Arg: ana, Blank: bl}},
					[]searchIn{{Kind: "pattern", Arg: pat, Blank: bl}, {Kind: "anagram", Arg: ana, Blank: bl}})
			}
			in.Searches = ss
			in.Probes = nil
			out = append(out, in)
		}
	}
	// one letter repeated a few hundred times (letter budgets beyond one byte)
	{
		rep := func(n int) []int {
			w := make([]int, n)
			for i := range w {
				w[i] = 97
			}
			return w
		}
		adds := [][]int{rep(3), rep(255), rep(256), rep(257), rep(300)}
		var ss [][]searchIn
		for _, n := range []int{255, 256, 257, 300} {
			ss = append(ss, []searchIn{{Kind: "anagram", Arg: rep(n), Blank: 63}}, []searchIn{{Kind: "anagram", Arg: append(rep(n-1), 63), Blank: 63}},
				[]searchIn{{Kind: "pattern", Arg: append(rep(n-1), 63), Blank: 63}})
		}
		out = append(out, dawgIn{Name: "longrep", Adds: adds, Searches: ss})
	}
	return out
}
