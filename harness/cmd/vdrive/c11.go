package main

func planarGrid(c *Ctx, add func(name string, g gJ, vars []invVar, known string)) []invIn { return nil }
