package main

// C11: IsPlanar.
//  - graphs whose planarity is known by construction: behaviours of PlanarGen.tla (TLC exhaustive dump
//    to a small depth and long simulated behaviours), rebuilt with the real EditableGraph operations;
//  - every isomorphism class up to n = 6 (7, 8 thorough) under all / seeded relabellings, judged by
//    the exact oracle of GraphTheory.tla.

import (
	"encoding/json"
	"fmt"
	"math/rand"

	"github.com/Tom-Johnston/mamba/graph"

	"verifharness/internal/obs"
)

type pgOp struct {
	Op string `json:"op"`
	A  int    `json:"a"`
	B  int    `json:"b"`
	S  []int  `json:"S"`
}
type pgBeh struct {
	Kind string `json:"kind"`
	N    int    `json:"n"`
	E    []int  `json:"e"`
	Hist []pgOp `json:"hist"`
}

// rebuild executes the operations of a PlanarGen behaviour on a real editable graph.
func rebuild(rep string, hist []pgOp) graph.EditableGraph {
	var g graph.EditableGraph
	for _, o := range hist {
		switch o.Op {
		case "k4":
			g = graphOfJ(rep, gJOf(graph.CompleteGraph(4)))
		case "k5":
			g = graphOfJ(rep, gJOf(graph.CompleteGraph(5)))
		case "k33":
			g = graphOfJ(rep, gJOf(graph.CompletePartiteGraph(3, 3)))
		case "addvertex":
			g.AddVertex(cp(o.S))
		case "removeedge":
			g.RemoveEdge(o.A, o.B)
		case "addedge":
			g.AddEdge(o.A, o.B)
		case "splitedge":
			graph.SplitEdge(g, o.A, o.B)
		default:
			panic("unknown generator operation " + o.Op)
		}
	}
	return g
}

func planarGrid(c *Ctx, add func(name string, g gJ, vars []invVar, known string)) []invIn {
	big := c.Thorough()
	r := rand.New(rand.NewSource(c.Seed))
	var out []invIn
	collect := func(name string, g gJ, vars []invVar, known string) {
		out = append(out, invIn{Prop: "C11", Name: name, G: g, Vars: vars, Known: known, Seed: c.Seed})
	}
	// exact oracle: every class, all relabellings up to n = 6
	for n := 0; n <= 6; n++ {
		for _, gj := range classReps(n) {
			vars := []invVar{}
			for i, pi := range permsOf(n) {
				vars = append(vars, invVar{Pi: pi, Rep: []string{"dense", "sparse"}[i%2]})
			}
			vars = append(vars, invVar{Pi: identity(n), Rep: "view"})
			collect(fmt.Sprintf("class%d", n), gj, vars, "")
		}
	}
	n7 := 120
	if big {
		n7 = 1044
	}
	c7 := classReps(7)
	for i := 0; i < n7; i++ {
		gj := c7[i%len(c7)]
		if !big {
			gj = c7[r.Intn(len(c7))]
		}
		collect("class7", gj, stdVariants(r, 7, 8), "")
	}
	if big {
		c8 := classReps(8)
		for i := 0; i < 1500; i++ {
			collect("class8", c8[r.Intn(len(c8))], stdVariants(r, 8, 4), "")
		}
	}
	// by construction: the behaviours TLC generated from PlanarGen.tla
	if c.Gen != "" {
		seen := map[string]bool{}
		readGenLines(c.Gen, "B", func(js string) {
			var b pgBeh
			if err := json.Unmarshal([]byte(js), &b); err != nil {
				panic(err)
			}
			k := fmt.Sprint(b.Kind, b.N, b.E)
			if seen[k] {
				return
			}
			seen[k] = true
			name := "gen-" + b.Kind
			// the graph is rebuilt with the real operations; if that does not give the specification's graph the event says so
			for _, rep := range []string{"dense", "sparse"} {
				var got gJ
				res := obs.Safe(func() { got = gJOf(rebuild(rep, b.Hist)) })
				if res != "ok" || got.N != b.N || !eqS(got.E, b.E) {
					collect(name+"-REBUILD-MISMATCH-"+rep, gJ{N: b.N, E: b.E}, []invVar{{Pi: []int{}, Rep: rep}}, b.Kind)
					return
				}
			}
			vars := []invVar{{Pi: identity(b.N), Rep: "dense"}, {Pi: identity(b.N), Rep: "sparse"}, {Pi: identity(b.N), Rep: "view"}}
			nrel := 4
			if b.Kind == "planar" {
				nrel = 10 // a wrongly rejected planar graph usually depends on the labelling
			}
			for i := 0; i < nrel; i++ {
				vars = append(vars, invVar{Pi: r.Perm(b.N), Rep: []string{"dense", "sparse"}[i%2]})
			}
			collect(name, gJ{N: b.N, E: b.E}, vars, b.Kind)
		})
	}
	return out
}
