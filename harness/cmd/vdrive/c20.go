package main

// C20: tsp.LIB on a writer that follows a fault plan (fault enumeration).
// For every n and weight function: one fault-free run to learn the number of Write calls W, then
// every position 1..W+1 x {fail, short, full} x {transient, permanent}.  Each run is one trace segment
// for TspLibTrace.tla.

import (
	"encoding/json"
	"errors"
	"fmt"
	"math"
	"strconv"
	"strings"

	"github.com/Tom-Johnston/mamba/tsp"

	"verifharness/internal/obs"
	"verifharness/internal/tr"
)

func init() { drivers["C20"] = driveC20 }

type tspPlan struct {
	N    int    `json:"n"`
	W    string `json:"w"`
	At   int    `json:"at"`
	Kind string `json:"kind"`
	Perm bool   `json:"perm"`
}

func (p tspPlan) key() string {
	return fmt.Sprintf("LIB(n=%d,w=%s,at=%d,kind=%s,perm=%v)", p.N, p.W, p.At, p.Kind, p.Perm)
}

var tspWeights = map[string]func(i, j int) int{
	"sum":  func(i, j int) int { return i + j },
	"neg":  func(i, j int) int { return -(i * j) - 1 },
	"big":  func(i, j int) int { return []int{2147483647, -2147483647}[(i+j)%2] },
	"huge": func(i, j int) int { return 1<<40 + i - j },
	"asym": func(i, j int) int { return 10*i + j },
	// the widest decimal forms an int can have (20 characters with the sign)
	"extreme": func(i, j int) int {
		return []int{math.MinInt64, math.MaxInt64, -1000000000000000000, -999999999999999999, math.MinInt64 + 1}[(i+2*j)%5]
	},
}
var tspWeightNames = []string{"sum", "neg", "big", "huge", "asym", "extreme"}

type planWriter struct {
	p     tspPlan
	calls int
	acc   []byte
	w     *tr.W
}

var errPlanned = errors.New("planned write failure")

func (pw *planWriter) Write(b []byte) (int, error) {
	pw.calls++
	faulty := pw.p.At > 0 && (pw.calls == pw.p.At || (pw.p.Perm && pw.calls > pw.p.At))
	n, err := len(b), error(nil)
	if faulty {
		err = errPlanned
		switch pw.p.Kind {
		case "fail":
			n = 0
		case "short":
			n = len(b) / 2
		case "full": // the error comes together with a full count
		default:
			panic("unknown fault kind " + pw.p.Kind)
		}
	}
	pw.acc = append(pw.acc, b[:n]...)
	if pw.w != nil {
		pw.w.Emit(tr.E{"ev": "Write", "len": len(b), "n": n, "err": err != nil})
	}
	return n, err
}

func runTsp(w *tr.W, p tspPlan) (writes int) {
	if w != nil {
		w.Emit(tr.E{"ev": "Plan", "n": p.N, "w": p.W, "at": p.At, "kind": p.Kind, "perm": p.Perm})
	}
	pw := &planWriter{p: p, w: w}
	wf := tspWeights[p.W]
	var err error
	res := obs.Safe(func() {
		err = tsp.LIB(pw, p.N, func(i, j int) int {
			v := wf(i, j)
			if w != nil {
				w.Emit(tr.E{"ev": "Weights", "i": i, "j": j, "s": strconv.Itoa(v)})
			}
			return v
		})
	})
	if w != nil {
		lines := [][]string{}
		failed := false
		_ = failed
		txt := string(pw.acc)
		for _, ln := range strings.Split(strings.TrimSuffix(txt, "\n"), "\n") {
			f := strings.Fields(ln)
			if f == nil {
				f = []string{}
			}
			lines = append(lines, f)
		}
		w.Emit(tr.E{"ev": "Ret", "err": err != nil, "res": res, "lines": lines})
	}
	return pw.calls
}

// tspEntry is one call of the driver's run, in order. Calls in one process share whatever package-level state tsp.LIB keeps, so a
// candidate finding is re-executed after the same preceding calls (Idx = position in the run; the replay regenerates the list).
type tspEntry struct {
	P      tspPlan
	Traced bool
}

func tspRun(c *Ctx, upto int, each func(i int, e tspEntry) int) (plans, weightSection int, wcount map[string]int) {
	wcount = map[string]int{}
	i := 0
	do := func(p tspPlan, traced bool) int {
		defer func() { i++ }()
		if upto >= 0 && i > upto {
			return 0
		}
		return each(i, tspEntry{p, traced})
	}
	over := func() bool { return upto >= 0 && i > upto } // replay: everything up to the last candidate has been executed
	maxN := 6
	if c.Thorough() {
		maxN = 9
	}
	for n := 0; n <= maxN; n++ {
		for _, wn := range tspWeightNames {
			if over() {
				return
			}
			if n > 6 && wn != "sum" && wn != "huge" {
				continue
			}
			base := tspPlan{N: n, W: wn, At: 0, Kind: "fail"}
			W := do(base, false)
			wcount[fmt.Sprintf("n=%d,w=%s", n, wn)] = W
			do(base, true)
			plans++
			for at := 1; at <= W+1; at++ {
				for _, kind := range []string{"fail", "short", "full"} {
					for _, perm := range []bool{false, true} {
						do(tspPlan{N: n, W: wn, At: at, Kind: kind, Perm: perm}, true)
						plans++
						if at > 3 && at <= W-1 {
							weightSection++
						}
					}
				}
			}
			// a fault-free call straight after failed calls: its output must not depend on them
			do(base, true)
			plans++
		}
	}
	// larger instances: fault-free output and a few fault positions (size-dependent behaviour of the writer path)
	big := []int{7, 8, 9, 10, 11, 12, 17, 33, 46, 64, 90}
	if c.Thorough() {
		big = append(big, 47, 65, 128, 150, 200)
	}
	for k, n := range big {
		if over() {
			return
		}
		wn := []string{"sum", "huge", "neg"}[k%3]
		base := tspPlan{N: n, W: wn, At: 0, Kind: "fail"}
		W := do(base, false)
		wcount[fmt.Sprintf("n=%d,w=%s", n, wn)] = W
		do(base, true)
		plans++
		for _, at := range []int{4, W / 2, W - 1, W, W + 1} {
			if over() {
				return
			}
			do(tspPlan{N: n, W: wn, At: at, Kind: []string{"fail", "short", "full"}[at%3], Perm: false}, true)
			plans++
			weightSection++
		}
		do(base, true)
		plans++
	}
	return
}

type tspIn struct {
	tspPlan
	Idx int `json:"idx"` // position of the call in the driver's run (replay: the calls before it are made first)
}

func driveC20(c *Ctx) {
	set := tr.NewSet(c.Out, "trace", c.Shards)
	meta := map[string]interface{}{}
	finish := func() {
		meta["segments"] = set.Segs
		meta["events"] = set.Close()
		tr.WriteJSON(c.Out+"/meta.json", meta)
	}
	if c.In != "" {
		// one pass over the same run of calls; only the candidates are traced, every other call is made silently in its place
		want, last := map[int]bool{}, -1
		for _, raw := range readInputs(c.In) {
			var in tspIn
			if err := json.Unmarshal(raw, &in); err != nil {
				panic(err)
			}
			want[in.Idx] = true
			if in.Idx > last {
				last = in.Idx
			}
		}
		tspRun(c, last, func(i int, e tspEntry) int {
			if !want[i] {
				return runTsp(nil, e.P)
			}
			return runTsp(set.Begin(fmt.Sprintf("%s#%d", e.P.key(), i), tr.E{"input": tspIn{e.P, i}}), e.P)
		})
		finish()
		return
	}
	distinct := map[string]bool{}
	plans, weightSection, wcount := tspRun(c, -1, func(i int, e tspEntry) int {
		if !e.Traced {
			return runTsp(nil, e.P)
		}
		distinct[e.P.key()] = true
		return runTsp(set.Begin(fmt.Sprintf("%s#%d", e.P.key(), i), tr.E{"input": tspIn{e.P, i}}), e.P)
	})
	meta["plans"] = plans
	meta["plans_distinct"] = len(distinct)
	meta["plans_with_fault_in_weight_section"] = weightSection
	meta["writes_per_config"] = wcount
	finish()
}
