package main

// C07: graph6 / sparse6 / Multicode / Pruefer codecs: encode, decode (with and without the optional
// header), logged for CodecTrace.tla whose oracle is the format definition in GraphCodecs.tla.

import (
	"encoding/json"
	"fmt"
	"math/rand"
	"sort"

	"github.com/Tom-Johnston/mamba/graph"

	"verifharness/internal/obs"
	"verifharness/internal/tr"
)

func init() { drivers["C07"] = driveC07 }

type codecIn struct {
	Codec string  `json:"codec"` // g6 | s6 | mc | prufer | pruferdec | mcmulti | g6huge | s6huge
	G     gJ      `json:"g"`
	Gs    []gJ    `json:"gs"`
	Code  []int   `json:"code"`
	Rep   string  `json:"rep"`
	N     int     `json:"n"`     // s6huge
	Pairs [][]int `json:"pairs"` // s6huge
}

func (in codecIn) key() string {
	switch in.Codec {
	case "pruferdec":
		return fmt.Sprintf("pruferdec(%v)", in.Code)
	case "mcmulti":
		return fmt.Sprintf("mcmulti(%v)", in.Gs)
	case "s6huge", "g6huge":
		return fmt.Sprintf("%s(n=%d,%v)", in.Codec, in.N, in.Pairs)
	}
	e := fmt.Sprint(in.G.E)
	if len(e) > 120 {
		e = fmt.Sprintf("%s...(%d edges)", e[:100], len(in.G.E))
	}
	return fmt.Sprintf("%s(n=%d,e=%s,%s)", in.Codec, in.G.N, e, in.Rep)
}

func bytesJ(s string) []int { return b2i([]byte(s)) }

func decEvent(f func() (graph.Graph, error)) tr.E {
	var g graph.Graph
	var err error
	res := obs.SafeT(10e9, func() { g, err = f() })
	empty, _ := obsAny(graph.NewDense(0, nil))
	if res != "ok" || err != nil {
		return tr.E{"res": res, "err": err != nil, "obs": empty}
	}
	o, r := obsAny(g)
	return tr.E{"res": r, "err": false, "obs": o}
}

// runHuge: graphs with thousands of vertices and a few edges (the 4-byte and 8-byte size headers). The string is too long to ship for
// graph6: its header, its length and the decoded graph's size and adjacency at the listed pairs and at a few other pairs are logged.
func runHuge(w *tr.W, in codecIn) {
	n := in.N
	var hdr []int
	var full []int
	total := 0
	dn, dm := -1, -1
	at, off := []bool{}, []bool{}
	derr := false
	probes := [][]int{{0, 1}, {1, 2}, {0, n - 1}, {n - 2, n - 1}, {n / 2, n/2 + 1}}
	res := obs.SafeT(60e9, func() {
		g := graph.NewSparse(n, nil)
		for _, p := range in.Pairs {
			g.AddEdge(p[0], p[1])
		}
		var s string
		var d graph.Graph
		var err error
		if in.Codec == "g6huge" {
			s = graph.Graph6Encode(g)
			d, err = graph.Graph6Decode(s)
		} else {
			s = graph.Sparse6Encode(g)
			d, err = graph.Sparse6Decode(s)
			full = bytesJ(s)
		}
		total = len(s)
		k := 9
		if len(s) < k {
			k = len(s)
		}
		hdr = bytesJ(s[:k])
		if err != nil || d == nil {
			derr = true
			return
		}
		dn, dm = d.N(), d.M()
		for _, p := range in.Pairs {
			at = append(at, dn == n && d.IsEdge(p[0], p[1]) && d.IsEdge(p[1], p[0]))
		}
		for _, p := range probes {
			off = append(off, dn == n && p[0] >= 0 && p[1] < n && p[0] != p[1] && d.IsEdge(p[0], p[1]))
		}
	})
	if full == nil {
		full = []int{}
	}
	w.Emit(tr.E{"ev": "Codec", "codec": in.Codec, "n": n, "pairs": in.Pairs, "probes": probes, "hdr": hdr, "len": total, "enc": full,
		"dn": dn, "dm": dm, "derr": derr, "at": at, "off": off, "res": res, "nt": true})
}

func runCodec(w *tr.W, in codecIn) {
	if in.Codec == "g6huge" || in.Codec == "s6huge" {
		runHuge(w, in)
		return
	}
	if in.G.E == nil {
		in.G.E = []int{}
	}
	ev := tr.E{"ev": "Codec", "codec": in.Codec, "g": in.G, "rep": in.Rep, "nt": in.G.N >= 2 && len(in.G.E) >= 1}
	none := tr.E{"res": "ok", "err": false, "obs": tr.E{"kind": "lite", "n": 0, "m": 0, "deg": []int{}, "nbr": [][]int{}, "adj": [][]int{}}}
	ev["enc"], ev["code"], ev["dec"], ev["dech"], ev["encres"] = []int{}, []int{}, none, none, "ok"
	switch in.Codec {
	case "g6", "s6":
		g := graphOfJ(in.Rep, in.G)
		var s string
		ev["encres"] = obs.SafeT(10e9, func() {
			if in.Codec == "g6" {
				s = graph.Graph6Encode(g)
			} else {
				s = graph.Sparse6Encode(g)
			}
		})
		ev["enc"] = bytesJ(s)
		if ev["encres"] == "ok" {
			if in.Codec == "g6" {
				ev["dec"] = decEvent(func() (graph.Graph, error) { return graph.Graph6Decode(s) })
				ev["dech"] = decEvent(func() (graph.Graph, error) { return graph.Graph6Decode(">>graph6<<" + s) })
			} else {
				ev["dec"] = decEvent(func() (graph.Graph, error) { return graph.Sparse6Decode(s) })
				ev["dech"] = decEvent(func() (graph.Graph, error) { return graph.Sparse6Decode(">>sparse6<<" + s) })
			}
		}
	case "mc":
		g := graphOfJ(in.Rep, in.G)
		var b []byte
		adj := ""
		ev["encres"] = obs.Safe(func() { b = graph.MulticodeEncode(g); adj = graph.AdjacencyMatrixEncode(g) })
		ev["enc"] = b2i(b)
		ev["adj"] = bytesJ(adj)
		if ev["encres"] == "ok" {
			ev["dec"] = decEvent(func() (graph.Graph, error) { return graph.MulticodeDecode(append([]byte{}, b...)), nil })
		}
	case "prufer":
		g := graphOfJ(in.Rep, in.G)
		var code []int
		ev["encres"] = obs.Safe(func() { code = graph.PruferEncode(g) })
		ev["code"] = cp(code)
		if ev["encres"] == "ok" {
			ev["dec"] = decEvent(func() (graph.Graph, error) { return graph.PruferDecode(cp(code)), nil })
		}
	case "pruferdec":
		var g graph.Graph
		var code2 []int
		res := obs.Safe(func() {
			t := graph.PruferDecode(cp(in.Code))
			g = t
			code2 = graph.PruferEncode(t)
		})
		o, r := tr.E{}, "ok"
		if res == "ok" {
			o, r = obsAny(g)
		} else {
			o, _ = obsAny(graph.NewDense(0, nil))
		}
		if res == "ok" {
			res = r
		}
		w.Emit(tr.E{"ev": "Codec", "codec": "pruferdec", "code": cp(in.Code), "code2": cp(code2), "obs": o, "res": res, "nt": len(in.Code) >= 1})
		return
	case "mcmulti":
		var all []byte
		decs := []tr.E{}
		res := obs.Safe(func() {
			for _, gj := range in.Gs {
				all = append(all, graph.MulticodeEncode(graphOfJ("dense", gj))...)
			}
			for _, d := range graph.MulticodeDecodeMultiple(all) {
				o, r := obsAny(d)
				if r != "ok" {
					panic(r)
				}
				decs = append(decs, o)
			}
		})
		w.Emit(tr.E{"ev": "Codec", "codec": "mcmulti", "gs": in.Gs, "enc": b2i(all), "decs": decs, "res": res, "nt": len(in.Gs) >= 2})
		return
	}
	w.Emit(ev)
}

func codecGrid(c *Ctx) []codecIn {
	big := c.Thorough()
	r := rand.New(rand.NewSource(c.Seed))
	var out []codecIn
	add := func(in codecIn) { out = append(out, in) }
	allCodecs := func(gj gJ) {
		add(codecIn{Codec: "g6", G: gj, Rep: "dense"})
		add(codecIn{Codec: "s6", G: gj, Rep: "sparse"})
		if gj.N <= 255 {
			add(codecIn{Codec: "mc", G: gj, Rep: "dense"})
		}
	}
	small := 4
	if big {
		small = 5
	}
	for n := 0; n <= small; n++ {
		for _, gj := range allGraphsJ(n) {
			allCodecs(gj)
			if n <= 3 {
				add(codecIn{Codec: "g6", G: gj, Rep: "sparse"})
				add(codecIn{Codec: "s6", G: gj, Rep: "dense"})
				add(codecIn{Codec: "mc", G: gj, Rep: "sparse"})
			}
		}
	}
	// edgeless, complete, one edge (first, last), special sparse6 padding shape at every n <= 70
	for n := 0; n <= 70; n++ {
		m := n * (n - 1) / 2
		allCodecs(gJ{N: n, E: []int{}})
		if n <= 34 || n%9 == 0 {
			full := make([]int, m)
			for i := range full {
				full[i] = i
			}
			allCodecs(gJ{N: n, E: full})
		}
		if m > 0 {
			allCodecs(gJ{N: n, E: []int{0}})
			allCodecs(gJ{N: n, E: []int{m - 1}})
			if n >= 3 { // an edge at n-2, none at n-1 (the sparse6 padding rule for n = 2^k)
				add(codecIn{Codec: "s6", G: gJ{N: n, E: []int{obs.PairToRank(0, n-2)}}, Rep: "sparse"})
				add(codecIn{Codec: "s6", G: gJ{N: n, E: []int{obs.PairToRank(n-3, n-2)}}, Rep: "sparse"})
			}
		}
	}
	nr := 150
	if big {
		nr = 1500
	}
	for i := 0; i < nr; i++ {
		n := []int{5, 6, 7, 8, 9, 12, 15, 16, 17, 20, 31, 32, 33, 40}[r.Intn(14)]
		p := []float64{0.05, 0.15, 0.3, 0.5, 0.9}[r.Intn(5)]
		allCodecs(randGraphJ(r, n, p))
	}
	for _, n := range []int{62, 63, 64, 100, 300} {
		if n == 300 { // 44850 pairs: the acceptor needs minutes for a dense graph of this size, so a sparse one (and 0.03 in the thorough tier)
			add(codecIn{Codec: "g6", G: randGraphJ(r, n, 0.002), Rep: "dense"})
			add(codecIn{Codec: "s6", G: randGraphJ(r, n, 0.002), Rep: "sparse"})
			if big {
				add(codecIn{Codec: "s6", G: randGraphJ(r, n, 0.03), Rep: "sparse"})
			}
			continue
		}
		allCodecs(randGraphJ(r, n, 0.03))
		allCodecs(randGraphJ(r, n, 0.5))
	}
	// Multicode at its largest sizes (vertex j is the byte j+1, so n = 255 is the last size the format has room for)
	mcN := []int{128, 255}
	if big {
		mcN = []int{127, 128, 254, 255}
	}
	for _, n := range mcN {
		gj := randGraphJ(r, n, 0.004)
		gj.E = append(gj.E, obs.PairToRank(n-2, n-1))
		sort.Ints(gj.E)
		gj.E = dedupInts(gj.E)
		add(codecIn{Codec: "mc", G: gj, Rep: []string{"dense", "sparse"}[n%2]})
	}
	// Pruefer: every code n <= 5 (6) both ways
	pn := 5
	if big {
		pn = 6
	}
	for n := 2; n <= pn; n++ {
		for _, code := range tuplesExact(n-2, n) {
			add(codecIn{Codec: "pruferdec", Code: code})
			add(codecIn{Codec: "prufer", G: pruferTree(code), Rep: []string{"dense", "sparse"}[len(out)%2]})
		}
	}
	for i := 0; i < 30; i++ {
		n := 7 + r.Intn(14)
		code := make([]int, n-2)
		for k := range code {
			code[k] = r.Intn(n)
		}
		add(codecIn{Codec: "pruferdec", Code: code})
	}
	// concatenations of Multicode records
	for i := 0; i < 60; i++ {
		k := 1 + r.Intn(4)
		var gs []gJ
		for j := 0; j < k; j++ {
			n := r.Intn(7) // 0..6: records of graphs on 0 and 1 vertices have no terminating zeros
			if i%5 == 0 && j%2 == 0 {
				n = 0
			}
			gs = append(gs, randGraphJ(r, n, 0.5))
		}
		add(codecIn{Codec: "mcmulti", Gs: gs})
	}
	// sizes around the boundaries of the size header: 62/63 (1 -> 4 bytes), 4095/4096 (top sextet of the 4-byte header),
	// 258047/258048 (4 -> 8 bytes, sparse6 only: a graph6 string of that size would have 33 10^9 bits)
	for _, n := range []int{62, 63, 64, 4095, 4096, 4097, 5000} {
		pairs := [][]int{{0, 1}, {0, n - 1}, {n / 2, n - 2}, {n - 2, n - 1}}
		add(codecIn{Codec: "g6huge", N: n, Pairs: pairs})
		add(codecIn{Codec: "s6huge", N: n, Pairs: pairs})
		add(codecIn{Codec: "s6huge", N: n, Pairs: [][]int{}})
	}
	for _, n := range []int{258047, 258048, 258049, 262143} { // the specification reads declared sizes below 2^18 only
		add(codecIn{Codec: "s6huge", N: n, Pairs: [][]int{{0, 1}, {5, n - 1}, {n - 2, n - 1}}})
		add(codecIn{Codec: "s6huge", N: n, Pairs: [][]int{{1, n - 2}}})
	}
	return out
}

func driveC07(c *Ctx) {
	set := tr.NewSet(c.Out, "trace", c.Shards)
	meta := map[string]interface{}{}
	finish := func() {
		meta["segments"] = set.Segs
		meta["events"] = set.Close()
		meta["timed_out"] = timedOut
		tr.WriteJSON(c.Out+"/meta.json", meta)
	}
	finishHook = finish
	if c.In != "" {
		for _, raw := range readInputs(c.In) {
			var in codecIn
			if err := json.Unmarshal(raw, &in); err != nil {
				panic(err)
			}
			runCodec(set.Begin(in.key(), tr.E{"input": in}), in)
		}
		finish()
		return
	}
	per := map[string]int{}
	for _, in := range codecGrid(c) {
		per[in.Codec]++
		runCodec(set.Begin(in.key(), tr.E{"input": in}), in)
	}
	meta["calls_per_codec"] = per
	finish()
}

func dedupInts(s []int) []int {
	out := s[:0]
	for i, v := range s {
		if i == 0 || v != s[i-1] {
			out = append(out, v)
		}
	}
	return out
}
