// vdrive executes the real mamba code under the control of, or for the benefit of, the TLA+
// specifications in /verif/spec:
//
//	vdrive <ID> drive  -out DIR [-tier quick|thorough] [-seed N] [-gen FILE] [-in FILE]
//
// drive writes ndjson traces (code -> spec direction) into DIR and, when -gen names a file of
// TLC-generated behaviours, replays those on the real code (spec -> code direction) and writes
// DIR/replayA.json.  -in names a replay file: only that segment is executed.
package main

import (
	"encoding/json"
	"flag"
	"fmt"
	"os"
	"sort"
)

type Ctx struct {
	ID     string
	Out    string
	Tier   string
	Seed   int64
	Gen    string
	In     string
	Shards int
	Meta   map[string]interface{}
}

func (c *Ctx) Thorough() bool { return c.Tier == "thorough" }

var drivers = map[string]func(*Ctx){}

func main() {
	if len(os.Args) < 3 {
		fmt.Fprintln(os.Stderr, "usage: vdrive <ID> drive [flags]")
		ids := []string{}
		for k := range drivers {
			ids = append(ids, k)
		}
		sort.Strings(ids)
		fmt.Fprintln(os.Stderr, "drivers:", ids)
		os.Exit(2)
	}
	c := &Ctx{ID: os.Args[1], Meta: map[string]interface{}{}}
	fs := flag.NewFlagSet("drive", flag.ExitOnError)
	fs.StringVar(&c.Out, "out", "", "output directory")
	fs.StringVar(&c.Tier, "tier", "quick", "quick|thorough")
	fs.Int64Var(&c.Seed, "seed", 1, "seed")
	fs.StringVar(&c.Gen, "gen", "", "file with TLC-generated behaviours")
	fs.StringVar(&c.In, "in", "", "replay file")
	fs.IntVar(&c.Shards, "shards", 8, "trace shards")
	fs.Parse(os.Args[3:])
	d, ok := drivers[c.ID]
	if !ok || os.Args[2] != "drive" || c.Out == "" {
		fmt.Fprintln(os.Stderr, "unknown driver or mode, or missing -out")
		os.Exit(2)
	}
	d(c)
}

// readInputs reads a replay file ({"input": X}) or a batch ({"inputs": [X...]}).
func readInputs(path string) []json.RawMessage {
	var f struct {
		Input  json.RawMessage   `json:"input"`
		Inputs []json.RawMessage `json:"inputs"`
	}
	bs, err := os.ReadFile(path)
	if err != nil {
		panic(err)
	}
	if err := json.Unmarshal(bs, &f); err != nil {
		panic(err)
	}
	if f.Input != nil {
		return append([]json.RawMessage{f.Input}, f.Inputs...)
	}
	return f.Inputs
}

// A call that ran into the watchdog leaves a goroutine spinning (possibly allocating).  The driver
// therefore stops at once after recording it: finishHook flushes what has been written so far.
var finishHook func()
var timedOut bool

func abortOnTimeout(res string) {
	if res == "timeout" {
		timedOut = true
		if finishHook != nil {
			finishHook()
		}
		os.Exit(0)
	}
}
