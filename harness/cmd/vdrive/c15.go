package main

// C15: the itertools iterators.  Every iterator is run on a grid of parameters (and, for the
// predicate-driven ones, on EVERY predicate table over small shapes): Next until false and three
// more times, Value (and FreqValue / InverseValue) snapshotted after each true.  One event per run
// for IterTrace.tla.

import (
	"encoding/json"
	"fmt"
	"math/rand"
	"time"

	"github.com/Tom-Johnston/mamba/itertools"

	"verifharness/internal/obs"
	"verifharness/internal/tr"
)

func init() { drivers["C15"] = driveC15 }

type iterIn struct {
	Kind string  `json:"kind"`
	P    []int   `json:"p"`    // scalar parameters
	M    []int   `json:"m"`    // list parameter (multiplicities / frequencies / factors)
	Pass [][]int `json:"pass"` // accepted prefixes (predicate table)
	Less [][]int `json:"less"` // order constraints [i,j]: i before j
}

type iterStep struct {
	Ok     bool    `json:"ok"`
	Val    []int   `json:"val"`
	Aux    []int   `json:"aux"`
	Blocks [][]int `json:"blocks"`
}

func (in iterIn) key() string {
	s := fmt.Sprintf("%s(p=%v,m=%v", in.Kind, in.P, in.M)
	if in.Pass != nil {
		s += fmt.Sprintf(",pass=%v", in.Pass)
	}
	if in.Less != nil {
		s += fmt.Sprintf(",less=%v", in.Less)
	}
	return s + ")"
}

func norm(in *iterIn) {
	if in.P == nil {
		in.P = []int{}
	}
	if in.M == nil {
		in.M = []int{}
	}
	if in.Pass == nil {
		in.Pass = [][]int{}
	}
	if in.Less == nil {
		in.Less = [][]int{}
	}
	for i := range in.Pass {
		if in.Pass[i] == nil {
			in.Pass[i] = []int{}
		}
	}
}

const iterCap = 12000

type stepper struct {
	next func() bool
	snap func() iterStep
}

func mkIter(in iterIn) stepper {
	passSet := map[string]bool{}
	for _, p := range in.Pass {
		passSet[fmt.Sprint(p)] = true
	}
	pred := func(s []int) bool { return passSet[fmt.Sprint(s)] }
	lessSet := map[[2]int]bool{}
	for _, c := range in.Less {
		lessSet[[2]int{c[0], c[1]}] = true
	}
	plain := func(v func() []int) func() iterStep {
		return func() iterStep { return iterStep{Ok: true, Val: cp(v()), Aux: []int{}, Blocks: [][]int{}} }
	}
	switch in.Kind {
	case "Combinations":
		it := itertools.Combinations(in.P[0], in.P[1])
		return stepper{it.Next, plain(func() []int { return it.Value() })}
	case "CombinationsColex":
		it := itertools.CombinationsColex(in.P[0], in.P[1])
		return stepper{it.Next, plain(func() []int { return it.Value() })}
	case "MultisetCombinations":
		it := itertools.MultisetCombinations(cp(in.M), in.P[0])
		return stepper{it.Next, func() iterStep {
			return iterStep{Ok: true, Val: cp(it.Value()), Aux: cp(it.FreqValue()), Blocks: [][]int{}}
		}}
	case "Permutations":
		it := itertools.Permutations(in.P[0])
		return stepper{it.Next, plain(func() []int { return it.Value() })}
	case "LexicographicPermutations":
		it := itertools.LexicographicPermutations(in.P[0])
		return stepper{it.Next, plain(func() []int { return it.Value() })}
	case "MultisetPermutations":
		it := itertools.MultisetPermutations(cp(in.M))
		return stepper{it.Next, plain(func() []int { return it.Value() })}
	case "Partitions":
		it := itertools.Partitions(in.P[0])
		return stepper{it.Next, func() iterStep {
			b := it.Value()
			out := make([][]int, len(b))
			for i := range b {
				out[i] = cp(b[i])
			}
			return iterStep{Ok: true, Val: []int{}, Aux: []int{}, Blocks: out}
		}}
	case "IntegerPartitions":
		it := itertools.IntegerPartitions(in.P[0])
		return stepper{it.Next, plain(func() []int { return it.Value() })}
	case "Product":
		it := itertools.Product(cp(in.M)...)
		return stepper{it.Next, plain(func() []int { return it.Value() })}
	case "RestrictedPrefixProduct":
		it := itertools.RestrictedPrefixProduct(pred, cp(in.M)...)
		return stepper{it.Next, plain(func() []int { return it.Value() })}
	case "RestrictedPrefixPermutations":
		it := itertools.RestrictedPrefixPermutations(in.P[0], pred)
		return stepper{it.Next, plain(func() []int { return it.Value() })}
	case "PermutationsByPattern":
		it := itertools.PermutationsByPattern(in.P[0], pred)
		return stepper{it.Next, plain(func() []int { return it.Value() })}
	case "TopologicalSorts":
		it := itertools.TopologicalSorts(in.P[0], func(i, j int) bool { return lessSet[[2]int{i, j}] })
		return stepper{it.Next, func() iterStep {
			return iterStep{Ok: true, Val: cp(it.Value()), Aux: cp(it.InverseValue()), Blocks: [][]int{}}
		}}
	}
	panic("unknown iterator kind " + in.Kind)
}

func runIter(w *tr.W, in iterIn) {
	norm(&in)
	steps := []iterStep{}
	res := obs.SafeT(3*time.Second, func() {
		st := mkIter(in)
		falses := 0
		for falses < 4 && len(steps) < iterCap {
			if st.next() {
				steps = append(steps, st.snap())
			} else {
				falses++
				steps = append(steps, iterStep{Ok: false, Val: []int{}, Aux: []int{}, Blocks: [][]int{}})
			}
		}
	})
	if res == "timeout" {
		steps = []iterStep{} // the abandoned goroutine may still be appending
	}
	w.Emit(tr.E{"ev": "Iter", "in": in, "steps": steps, "res": res})
	abortOnTimeout(res)
}

// tuples enumerates all sequences over 0..base-1 (or lo..hi) of length 0..maxLen
func tuples(lo, hi, maxLen int) [][]int {
	out := [][]int{{}}
	prev := [][]int{{}}
	for l := 1; l <= maxLen; l++ {
		var cur [][]int
		for _, p := range prev {
			for v := lo; v <= hi; v++ {
				cur = append(cur, append(cp(p), v))
			}
		}
		out = append(out, cur...)
		prev = cur
	}
	return out
}

func permsOf(n int) [][]int {
	var out [][]int
	var rec func(p []int, used int)
	rec = func(p []int, used int) {
		if len(p) == n {
			out = append(out, cp(p))
			return
		}
		for v := 0; v < n; v++ {
			if used&(1<<uint(v)) == 0 {
				rec(append(p, v), used|1<<uint(v))
			}
		}
	}
	rec([]int{}, 0)
	return out
}

// all non-empty prefixes of the given objects, without repeats
func prefixesOf(objs [][]int) [][]int {
	seen := map[string]bool{}
	var out [][]int
	for _, o := range objs {
		for k := 1; k <= len(o); k++ {
			s := fmt.Sprint(o[:k])
			if !seen[s] {
				seen[s] = true
				out = append(out, cp(o[:k]))
			}
		}
	}
	return out
}

func subsetByMask(all [][]int, mask uint64) [][]int {
	out := [][]int{}
	for i := range all {
		if mask&(1<<uint(i)) != 0 {
			out = append(out, all[i])
		}
	}
	return out
}

func productObjs(ns []int) [][]int {
	out := [][]int{{}}
	for _, n := range ns {
		var cur [][]int
		for _, p := range out {
			for v := 0; v < n; v++ {
				cur = append(cur, append(cp(p), v))
			}
		}
		out = cur
	}
	return out
}

func driveC15(c *Ctx) {
	set := tr.NewSet(c.Out, "trace", c.Shards)
	meta := map[string]interface{}{}
	counts := map[string]int{}
	finish := func() {
		meta["segments"] = set.Segs
		meta["events"] = set.Close()
		meta["runs_per_kind"] = counts
		meta["timed_out"] = timedOut
		tr.WriteJSON(c.Out+"/meta.json", meta)
	}
	finishHook = finish
	run := func(in iterIn) {
		norm(&in)
		counts[in.Kind]++
		runIter(set.Begin(in.key(), tr.E{"input": in}), in)
	}
	if c.In != "" {
		for _, raw := range readInputs(c.In) {
			var in iterIn
			if err := json.Unmarshal(raw, &in); err != nil {
				panic(err)
			}
			run(in)
		}
		finish()
		return
	}
	big := c.Thorough()
	r := rand.New(rand.NewSource(c.Seed))
	maxN := 6
	if big {
		maxN = 7
	}
	for n := 0; n <= maxN; n++ {
		for k := 0; k <= n+2; k++ {
			run(iterIn{Kind: "Combinations", P: []int{n, k}})
			run(iterIn{Kind: "CombinationsColex", P: []int{n, k}})
		}
		run(iterIn{Kind: "Permutations", P: []int{n}})
		run(iterIn{Kind: "LexicographicPermutations", P: []int{n}})
		run(iterIn{Kind: "Partitions", P: []int{n}})
	}
	for n := 0; n <= 9; n++ {
		run(iterIn{Kind: "IntegerPartitions", P: []int{n}})
	}
	for _, m := range tuples(0, 2, 3) {
		sum := 0
		for _, v := range m {
			sum += v
		}
		for k := 0; k <= sum+1; k++ {
			run(iterIn{Kind: "MultisetCombinations", P: []int{k}, M: m})
		}
		run(iterIn{Kind: "MultisetPermutations", M: m})
	}
	// seven and eight elements: the first sizes at which the middle of a reversed tail is longer than three
	for _, m := range [][]int{{2, 2, 2, 1}, {3, 2, 2}, {1, 2, 1, 2, 1}, {2, 2, 2, 2}, {1, 0, 5, 1}} {
		run(iterIn{Kind: "MultisetPermutations", M: m})
	}
	if !big {
		run(iterIn{Kind: "LexicographicPermutations", P: []int{7}})
	}
	if big {
		for _, m := range [][]int{{3, 1, 2}, {0, 4, 1}, {2, 2, 2, 1}, {1, 1, 1, 1, 1}} {
			for k := 0; k <= 5; k++ {
				run(iterIn{Kind: "MultisetCombinations", P: []int{k}, M: m})
			}
			run(iterIn{Kind: "MultisetPermutations", M: m})
		}
	}
	for _, ns := range tuples(0, 3, 3) {
		run(iterIn{Kind: "Product", M: ns})
	}
	// RestrictedPrefixProduct: every predicate table on every shape <= (2,2,2); plus shapes with a zero factor and (3,2)
	for _, ns := range tuples(1, 2, 3) {
		pf := prefixesOf(productObjs(ns))
		for mask := uint64(0); mask < 1<<uint(len(pf)); mask++ {
			if len(pf) > 10 && !big && mask%4 != uint64(c.Seed)%4 { // quick: a quarter of the 2^14 tables of shape (2,2,2)-like
				continue
			}
			run(iterIn{Kind: "RestrictedPrefixProduct", M: ns, Pass: subsetByMask(pf, mask)})
		}
	}
	for _, ns := range [][]int{{0}, {2, 0}, {0, 2}, {3, 2}, {2, 3, 1}} {
		pf := prefixesOf(productObjs(ns))
		for t := 0; t < 40; t++ {
			run(iterIn{Kind: "RestrictedPrefixProduct", M: ns, Pass: subsetByMask(pf, r.Uint64())})
		}
		run(iterIn{Kind: "RestrictedPrefixProduct", M: ns, Pass: pf})
	}
	// RestrictedPrefixPermutations: every table for n <= 3, random tables for n = 4 (5 thorough)
	for n := 0; n <= 3; n++ {
		pf := prefixesOf(permsOf(n))
		for mask := uint64(0); mask < 1<<uint(len(pf)); mask++ {
			if n == 3 && !big && mask%4 != uint64(c.Seed)%4 {
				continue
			}
			run(iterIn{Kind: "RestrictedPrefixPermutations", P: []int{n}, Pass: subsetByMask(pf, mask)})
		}
	}
	for _, n := range []int{4, 5} {
		if n == 5 && !big {
			continue
		}
		pf := prefixesOf(permsOf(n))
		for t := 0; t < 300; t++ {
			var pass [][]int
			dens := []float64{0.5, 0.7, 0.9, 1.0}[t%4]
			for _, p := range pf {
				if r.Float64() < dens {
					pass = append(pass, p)
				}
			}
			run(iterIn{Kind: "RestrictedPrefixPermutations", P: []int{n}, Pass: pass})
		}
	}
	// PermutationsByPattern: every table of patterns for n <= 3, random for n = 4
	for n := 0; n <= 3; n++ {
		var pats [][]int
		for l := 1; l <= n; l++ {
			pats = append(pats, permsOf(l)...)
		}
		for mask := uint64(0); mask < 1<<uint(len(pats)); mask++ {
			run(iterIn{Kind: "PermutationsByPattern", P: []int{n}, Pass: subsetByMask(pats, mask)})
		}
	}
	{
		var pats [][]int
		for l := 1; l <= 4; l++ {
			pats = append(pats, permsOf(l)...)
		}
		for t := 0; t < 300; t++ {
			var pass [][]int
			dens := []float64{0.5, 0.7, 0.9, 1.0}[t%4]
			for _, p := range pats {
				if r.Float64() < dens {
					pass = append(pass, p)
				}
			}
			run(iterIn{Kind: "PermutationsByPattern", P: []int{4}, Pass: pass})
		}
	}
	// TopologicalSorts: every sub-relation of the natural order for n <= 4 (5 thorough)
	topN := 4
	if big {
		topN = 5
	}
	for n := 0; n <= topN; n++ {
		var pairs [][]int
		for j := 0; j < n; j++ {
			for i := 0; i < j; i++ {
				pairs = append(pairs, []int{i, j})
			}
		}
		for mask := uint64(0); mask < 1<<uint(len(pairs)); mask++ {
			run(iterIn{Kind: "TopologicalSorts", P: []int{n}, Less: subsetByMask(pairs, mask)})
		}
	}
	finish()
}
