package main

// C18: disjoint.Set.
//  A: every transition of DisjointSetImpl.tla's state graph (TLC dump; it contains the forests
//     with long paths that make compression fire) replayed on a real disjoint.Set.  Compared only
//     through the abstract projection: the partition (via Find on a COPY), the value returned by
//     Find/FindBuffered (a member of the class, equal for all members), Sets, SmallestRep, Roots.
//  B: seeded histories n <= 64 (random, and binomial-tree constructions giving height >= 3)
//     logged for DisjointTrace.tla.

import (
	"encoding/json"
	"fmt"
	"math/rand"
	"os"
	"strings"
	"time"

	"github.com/Tom-Johnston/mamba/disjoint"

	"verifharness/internal/obs"
	"verifharness/internal/tr"
)

func init() { drivers["C18"] = driveC18 }

type DAct struct {
	Op  string `json:"op"`
	X   int    `json:"x"`
	Y   int    `json:"y"`
	Ret int    `json:"ret"`
}

func (a DAct) String() string {
	if strings.HasPrefix(a.Op, "Find") {
		return fmt.Sprintf("%s(%d)", a.Op, a.X)
	}
	return fmt.Sprintf("%s(%d,%d)", a.Op, a.X, a.Y)
}

func dKey(n int, h []DAct) string {
	s := make([]string, len(h))
	for i := range h {
		s[i] = h[i].String()
	}
	return fmt.Sprintf("New(%d);", n) + strings.Join(s, ";")
}

type DObs struct {
	Rep   []int   `json:"rep"`   // Find(i) for every i, on a copy
	Sets  [][]int `json:"sets"`  // Sets() on a copy
	Small []int   `json:"small"` // SmallestRep() on a copy
	Roots []int   `json:"roots"` // Roots() on a copy
}

func copySet(ds disjoint.Set) disjoint.Set { return append(disjoint.Set{}, ds...) }

func observeD(ds disjoint.Set) (o DObs, res string) {
	res = obs.SafeT(2*time.Second, func() {
		n := len(ds)
		c := copySet(ds)
		o.Rep = make([]int, n)
		for i := 0; i < n; i++ {
			o.Rep[i] = c.Find(i)
		}
		c = copySet(ds)
		o.Sets = c.Sets()
		if o.Sets == nil {
			o.Sets = [][]int{}
		}
		c = copySet(ds)
		o.Small = c.SmallestRep()
		c = copySet(ds)
		o.Roots = c.Roots()
		if o.Roots == nil {
			o.Roots = []int{}
		}
	})
	if res != "ok" {
		o = DObs{Rep: []int{}, Sets: [][]int{}, Small: []int{}, Roots: []int{}}
	}
	return
}

func applyD(ds *disjoint.Set, a DAct, buf []int) (ret int, res string) {
	// the buffered variants only need a buffer of capacity >= 1 (they append): capacities 1 and 2 are shorter than most paths
	if c := []int{1, 2, 0}[(a.X+a.Y)%3]; c > 0 && c < len(buf) {
		buf = make([]int, c)
	}
	res = obs.SafeT(2*time.Second, func() {
		switch a.Op {
		case "Find":
			ret = ds.Find(a.X)
		case "FindBuffered":
			ret = ds.FindBuffered(a.X, buf)
		case "Union":
			ds.Union(a.X, a.Y)
		case "UnionBuffered":
			ds.UnionBuffered(a.X, a.Y, buf)
		default:
			panic("unknown op")
		}
	})
	return
}

// checkD compares an observation with the partition sm (sm[i] = least member of i's class).
func checkD(o DObs, sm []int) string {
	n := len(sm)
	if len(o.Rep) != n || len(o.Small) != n {
		return "shape"
	}
	for i := 0; i < n; i++ {
		if o.Rep[i] < 0 || o.Rep[i] >= n || sm[o.Rep[i]] != sm[i] {
			return fmt.Sprintf("Find(%d)=%d is not in the class of %d", i, o.Rep[i], i)
		}
		if o.Rep[i] != o.Rep[sm[i]] {
			return fmt.Sprintf("Find(%d) != Find(%d) although they are joined", i, sm[i])
		}
		if o.Small[i] != sm[i] {
			return fmt.Sprintf("SmallestRep[%d]=%d, want %d", i, o.Small[i], sm[i])
		}
	}
	for i := 0; i < n; i++ {
		for j := 0; j < i; j++ {
			if (o.Rep[i] == o.Rep[j]) != (sm[i] == sm[j]) {
				return fmt.Sprintf("Find(%d)==Find(%d) is %v but joined is %v", i, j, o.Rep[i] == o.Rep[j], sm[i] == sm[j])
			}
		}
	}
	// Sets: classes ascending, ordered by least element
	var want [][]int
	idx := map[int]int{}
	for i := 0; i < n; i++ {
		if sm[i] == i {
			idx[i] = len(want)
			want = append(want, []int{})
		}
		want[idx[sm[i]]] = append(want[idx[sm[i]]], i)
	}
	if len(o.Sets) != len(want) {
		return "Sets: wrong number of sets"
	}
	for k := range want {
		if !eqS(o.Sets[k], want[k]) {
			return fmt.Sprintf("Sets[%d]=%v, want %v", k, o.Sets[k], want[k])
		}
	}
	seen := map[int]bool{}
	for _, r := range o.Roots {
		if r < 0 || r >= n || seen[sm[r]] {
			return "Roots: not one element per set"
		}
		seen[sm[r]] = true
	}
	if len(seen) != len(want) {
		return "Roots: not one element per set"
	}
	return ""
}

type dState struct {
	Ds []int `json:"ds"`
	Sm []int `json:"sm"`
}

func replayC18(c *Ctx) (checked, steps int, mism []Mismatch) {
	g := loadGen(c.Gen)
	acts := make([]DAct, len(g.Trans))
	tos := make([]dState, len(g.Trans))
	for i, t := range g.Trans {
		if err := json.Unmarshal(t.A, &acts[i]); err != nil {
			panic(err)
		}
		json.Unmarshal(t.T, &tos[i])
	}
	seen := map[string]bool{}
	for i := range g.Trans {
		idx := g.History(i)
		n := len(tos[i].Sm)
		hist := make([]DAct, len(idx))
		for k, j := range idx {
			hist[k] = acts[j]
		}
		ds := disjoint.New(n)
		buf := make([]int, n)
		checked++
		for k, j := range idx {
			ret, res := applyD(&ds, acts[j], buf)
			steps++
			why := ""
			if res != "ok" {
				why = res
			} else {
				sm := tos[j].Sm
				if strings.HasPrefix(acts[j].Op, "Find") && (ret < 0 || ret >= n || sm[ret] != sm[acts[j].X]) {
					why = fmt.Sprintf("returned %d, not a member of the class", ret)
				} else {
					o, r := observeD(ds)
					if r != "ok" {
						why = "observer " + r
					} else {
						why = checkD(o, sm)
						if why == "" && strings.HasPrefix(acts[j].Op, "Find") && o.Rep[acts[j].X] != ret {
							why = fmt.Sprintf("returned %d but a following Find gives %d", ret, o.Rep[acts[j].X])
						}
					}
				}
			}
			if why != "" {
				key := dKey(n, hist[:k+1])
				if !seen[key] {
					seen[key] = true
					mism = append(mism, Mismatch{Key: key, Why: why + " after " + acts[j].String(), Input: map[string]interface{}{"n": n, "hist": hist[:k+1]}})
				}
				if strings.Contains(why, "timeout") {
					timedOut = true
					return
				}
				break
			}
		}
	}
	return
}

func runHistoryD(w *tr.W, n int, hist []DAct) {
	ds := disjoint.New(n)
	buf := make([]int, n+1)
	o, res := observeD(ds)
	w.Emit(tr.E{"ev": "New", "n": n, "res": res, "obs": o})
	abortOnTimeout(res)
	for _, a := range hist {
		ret, res := applyD(&ds, a, buf)
		a.Ret = ret
		o, r2 := observeD(ds)
		if res == "ok" {
			res = r2
		}
		w.Emit(tr.E{"ev": "Op", "a": a, "res": res, "obs": o})
		abortOnTimeout(res)
		if res != "ok" {
			return
		}
	}
}

func randHistoryD(r *rand.Rand, n, length int) []DAct {
	ops := []string{"Union", "UnionBuffered", "Find", "FindBuffered"}
	h := []DAct{}
	for len(h) < length {
		op := ops[r.Intn(4)]
		if r.Intn(3) == 0 {
			op = ops[r.Intn(2)]
		}
		h = append(h, DAct{Op: op, X: r.Intn(n), Y: r.Intn(n)})
	}
	return h
}

// binomialHistoryD joins singletons pairwise, then pairs of pairs, ... (always equal ranks, so the
// height grows by one per round) and then looks up the deepest elements: paths of up to log2(n)+1 nodes.
func binomialHistoryD(r *rand.Rand, n int) []DAct {
	h := []DAct{}
	perm := r.Perm(n)
	for size := 1; size < n; size *= 2 {
		for s := 0; s+size < n; s += 2 * size {
			op := "Union"
			if r.Intn(2) == 0 {
				op = "UnionBuffered"
			}
			h = append(h, DAct{Op: op, X: perm[s], Y: perm[s+size]})
		}
	}
	for k := 0; k < n; k++ {
		op := "Find"
		if r.Intn(2) == 0 {
			op = "FindBuffered"
		}
		h = append(h, DAct{Op: op, X: perm[r.Intn(n)]})
		if r.Intn(4) == 0 {
			h = append(h, DAct{Op: "Union", X: r.Intn(n), Y: r.Intn(n)})
		}
	}
	return h
}

func driveC18(c *Ctx) {
	set := tr.NewSet(c.Out, "trace", c.Shards)
	meta := map[string]interface{}{}
	finish := func() {
		meta["segments"] = set.Segs
		meta["events"] = set.Close()
		meta["timed_out"] = timedOut
		tr.WriteJSON(c.Out+"/meta.json", meta)
	}
	finishHook = finish
	type input struct {
		N    int    `json:"n"`
		Hist []DAct `json:"hist"`
	}
	if c.In != "" {
		for _, raw := range readInputs(c.In) {
			var in input
			if err := json.Unmarshal(raw, &in); err != nil {
				panic(err)
			}
			w := set.Begin(dKey(in.N, in.Hist), tr.E{"input": in})
			runHistoryD(w, in.N, in.Hist)
		}
		finish()
		return
	}
	if c.Gen != "" {
		checked, steps, mism := replayC18(c)
		meta["A_transitions_replayed"] = checked
		meta["A_steps"] = steps
		meta["A_mismatches"] = len(mism)
		tr.WriteJSON(c.Out+"/replayA.json", capMismatches(mism, 25))
		if timedOut {
			finish()
			os.Exit(0)
		}
	}
	r := rand.New(rand.NewSource(c.Seed))
	nh := 120
	if c.Thorough() {
		nh = 1200
	}
	for i := 0; i < nh; i++ {
		n := []int{1, 2, 3, 5, 8, 9, 16, 17, 33, 64}[r.Intn(10)]
		var hist []DAct
		if i%3 == 0 && n >= 8 {
			hist = binomialHistoryD(r, n)
		} else {
			hist = randHistoryD(r, n, 10+r.Intn(3*n+10))
		}
		if i == 0 {
			k := len(hist)
			if k > 8 {
				k = 8
			}
			meta["B_sample"] = dKey(n, hist[:k])
		}
		w := set.Begin(dKey(n, hist), tr.E{"input": input{N: n, Hist: hist}})
		runHistoryD(w, n, hist)
	}
	// n = 0
	w := set.Begin(dKey(0, nil), tr.E{"input": input{N: 0, Hist: []DAct{}}})
	runHistoryD(w, 0, nil)
	meta["B_histories"] = nh + 1
	finish()
}
