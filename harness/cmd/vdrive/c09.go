package main

// C09 / C10 / C11: graph invariants.  One event per base graph with the results of the real
// functions on several variants (relabelling x representation: dense, sparse, views), for
// InvariantsTrace.tla whose oracle is lib/GraphTheory.tla.

import (
	"encoding/json"
	"fmt"
	"math/rand"
	"sort"
	"time"

	"github.com/Tom-Johnston/mamba/graph"

	"verifharness/internal/obs"
	"verifharness/internal/tr"
)

func init() {
	drivers["C09"] = func(c *Ctx) { driveInv(c, "C09") }
	drivers["C10"] = func(c *Ctx) { driveInv(c, "C10") }
	drivers["C11"] = func(c *Ctx) { driveInv(c, "C11") }
}

type invVar struct {
	Pi  []int  `json:"pi"`
	Rep string `json:"rep"` // dense | sparse | view
}
type invIn struct {
	Prop  string   `json:"prop"`
	Name  string   `json:"name"`
	G     gJ       `json:"g"`
	Vars  []invVar `json:"vars"`
	Known string   `json:"known"` // C11: "planar" | "nonplanar" | "" (oracle decides)
	Seed  int64    `json:"seed"`
}

func (in invIn) key() string {
	e := fmt.Sprint(in.G.E)
	if len(e) > 100 {
		e = fmt.Sprintf("%s...(%d edges)", e[:80], len(in.G.E))
	}
	return fmt.Sprintf("%s[%s](n=%d,e=%s;%d variants)", in.Prop, in.Name, in.G.N, e, len(in.Vars))
}

// variantGraphs returns the graph as a Graph (possibly a view) and as an EditableGraph (for the functions that need one), and the graph
// underneath a view. A "view" variant IS the relabelling: InducedSubgraph(Complement(Complement(base)), pi) over the unrelabelled base (dense
// or sparse in turn), so the vertex list of the view is in general not ascending.
func variantGraphs(gj gJ, v invVar) (graph.Graph, graph.EditableGraph, graph.Graph) {
	rep := v.Rep
	if rep == "view" || rep == "coview-dense" || rep == "coview-sparse" {
		rep = "dense"
	}
	h := relabelled(rep, gj, v.Pi)
	if v.Rep == "coview-dense" || v.Rep == "coview-sparse" { // the graph as the Complement view of its complement
		co := gJOf(graph.ComplementDense(graphOfJ("dense", gj)))
		base := relabelled(v.Rep[len("coview-"):], co, v.Pi)
		return graph.Complement(base), h, base
	}
	if v.Rep == "view" {
		baseRep := []string{"dense", "sparse"}[(gj.N+len(gj.E))%2]
		base := graphOfJ(baseRep, gj)
		return graph.InducedSubgraph(graph.Complement(graph.Complement(base)), cp(v.Pi)), h, base
	}
	return h, h, h
}

func nn2(s [][]int) [][]int {
	if s == nil {
		return [][]int{}
	}
	for i := range s {
		if s[i] == nil {
			s[i] = []int{}
		}
	}
	return s
}

func resC09(g graph.Graph, eg graph.EditableGraph, r *rand.Rand) tr.E {
	n := g.N()
	out := tr.E{}
	// a returned slice belongs to the caller: keep() logs a copy and remembers the slice itself, which is compared again after all other calls
	type kept struct{ raw, copy []int }
	var held []kept
	keep := func(raw []int) []int {
		c := cp(raw)
		held = append(held, kept{raw, c})
		return c
	}
	out["clique"] = graph.CliqueNumber(g)
	out["indep"] = graph.IndependenceNumber(g)
	ch := make(chan []int, 1024)
	go graph.AllMaximalCliques(g, ch)
	mc := [][]int{}
	for c := range ch {
		s := cp(c)
		sort.Ints(s)
		mc = append(mc, s)
		if len(mc) > 5000 {
			panic("more maximal cliques than possible")
		}
	}
	out["maxcliques"] = mc
	k, col := graph.ChromaticNumber(g)
	out["chrom"] = tr.E{"k": k, "col": keep(col)}
	kc := []tr.E{}
	for q := 0; q <= n+1; q++ {
		ok, c := graph.IsKColorable(g, q)
		kc = append(kc, tr.E{"k": q, "ok": ok, "col": keep(c)})
	}
	out["kcol"] = kc
	ci, cols := graph.ChromaticIndex(g)
	out["chromidx"] = tr.E{"k": ci, "cols": b2i(cols)}
	out["poly"] = cp(graph.ChromaticPolynomial(eg)) // on the caller's own graph: it must come back unchanged (checked through "same")
	gr := []tr.E{}
	var orders [][]int
	if n <= 3 {
		orders = permsOf(n)
	} else {
		orders = [][]int{identity(n)}
		for i := 0; i < 3; i++ {
			orders = append(orders, r.Perm(n))
		}
	}
	for _, o := range orders {
		gk, gc := graph.GreedyColor(g, cp(o))
		gr = append(gr, tr.E{"order": o, "k": gk, "col": keep(gc)})
	}
	out["greedy"] = gr
	d, ord := graph.Degeneracy(g)
	out["degen"] = tr.E{"d": d, "order": keep(ord)}
	// beyond the listed functions: RandomMaximalClique (a maximal clique, the same for the same seed) and IsProperColouring
	rmc := []tr.E{}
	for seed := int64(1); seed <= 4; seed++ {
		a, b := cp(graph.RandomMaximalClique(g, seed)), cp(graph.RandomMaximalClique(g, seed))
		sort.Ints(a)
		sort.Ints(b)
		rmc = append(rmc, tr.E{"seed": seed, "clique": a, "again": b})
	}
	out["rmc"] = rmc
	ipc := []tr.E{}
	for t := 0; t < 6; t++ {
		c := make([]int, n)
		for i := range c {
			c[i] = r.Intn(3) - (t % 2) // with and without negative entries
		}
		if t == 5 && n > 0 {
			c = c[:n-1] // wrong length
		}
		ipc = append(ipc, tr.E{"col": c, "ok": graph.IsProperColouring(g, cp(c))})
	}
	out["ipc"] = ipc
	// once more the functions that return colourings (on the same graph), then the kept slices must still hold what they held
	graph.ChromaticNumber(g)
	graph.IsKColorable(g, 2)
	graph.GreedyColor(g, identity(n))
	stable := true
	for _, h := range held {
		if len(h.raw) != len(h.copy) {
			stable = false
		}
		for i := range h.copy {
			if i < len(h.raw) && h.raw[i] != h.copy[i] {
				stable = false
			}
		}
	}
	out["stable"] = stable
	return out
}

func lengthBounds(n int) []int {
	m := []int{-1}
	for k := 0; k <= n+1; k++ {
		m = append(m, k)
	}
	return m
}

func resC10(g graph.Graph, eg graph.EditableGraph) tr.E {
	n := g.N()
	out := tr.E{}
	dist := make([][]int, n)
	comp := make([][]int, n)
	for a := 0; a < n; a++ {
		dist[a] = make([]int, n)
		for b := 0; b < n; b++ {
			dist[a][b] = graph.Distance(g, a, b)
		}
		comp[a] = cp(graph.ConnectedComponent(g, a))
	}
	out["dist"], out["comp"] = dist, comp
	out["ecc"] = cp(graph.Eccentricity(g))
	out["diam"], out["rad"], out["girth"] = graph.Diameter(g), graph.Radius(g), graph.Girth(g)
	out["comps"] = nn2(graph.ConnectedComponents(g))
	bl, arts := graph.BiconnectedComponents(g)
	out["blocks"], out["arts"] = nn2(bl), cp(arts)
	out["cycles"] = cp(graph.NumberOfCycles(eg))
	ic, ip := []tr.E{}, []tr.E{}
	for _, ml := range lengthBounds(n) {
		ic = append(ic, tr.E{"ml": ml, "counts": cp(graph.NumberOfInducedCycles(g, ml))})
		ip = append(ip, tr.E{"ml": ml, "counts": cp(graph.NumberOfInducedPaths(g, ml))})
	}
	out["indcycles"], out["indpaths"] = ic, ip
	// beyond the listed functions: MinDegree, MaxDegree, Equal (with itself, with its complement, with a copy after an edit)
	out["mindeg"], out["maxdeg"] = graph.MinDegree(g), graph.MaxDegree(g)
	h := eg.Copy()
	eq := []bool{graph.Equal(g, h), graph.Equal(g, graph.ComplementDense(g))}
	if n >= 2 {
		if h.IsEdge(0, 1) {
			h.RemoveEdge(0, 1)
		} else {
			h.AddEdge(0, 1)
		}
		eq = append(eq, graph.Equal(g, h))
	}
	out["equal"] = eq
	return out
}

// resC09Big: the functions that stay fast on graphs with hundreds of vertices (families with closed-form answers)
func resC09Big(g graph.Graph) tr.E {
	out := tr.E{}
	out["clique"] = graph.CliqueNumber(g)
	k, col := graph.ChromaticNumber(g)
	out["chrom"] = tr.E{"k": k, "col": cp(col)}
	gk, gc := graph.GreedyColor(g, identity(g.N()))
	out["greedy"] = tr.E{"k": gk, "col": cp(gc)}
	d, ord := graph.Degeneracy(g)
	out["degen"] = tr.E{"d": d, "order": cp(ord)}
	out["mindeg"], out["maxdeg"] = graph.MinDegree(g), graph.MaxDegree(g)
	return out
}

func runInv(w *tr.W, in invIn) {
	if in.G.E == nil {
		in.G.E = []int{}
	}
	r := rand.New(rand.NewSource(in.Seed))
	vars := []tr.E{}
	stop := ""
	for _, v := range in.Vars {
		var res tr.E
		outcome := obs.SafeT(20*time.Second, func() {
			g, eg, base := variantGraphs(in.G, v)
			before := fmt.Sprint(obs.Of(g), obs.Of(eg), obs.Of(base))
			switch in.Prop {
			case "C09":
				if in.Known != "" {
					res = resC09Big(g)
				} else {
					res = resC09(g, eg, r)
				}
			case "C10":
				res = resC10(g, eg)
			default:
				res = tr.E{"planar": graph.IsPlanar(g)}
			}
			// none of these functions may change the graph it is given
			res["same"] = before == fmt.Sprint(obs.Of(g), obs.Of(eg), obs.Of(base))
		})
		if outcome != "ok" {
			res = tr.E{}
		}
		vars = append(vars, tr.E{"pi": v.Pi, "rep": v.Rep, "res": outcome, "r": res})
		if outcome == "timeout" {
			stop = outcome
			break
		}
	}
	conn := true // non-triviality rule of DESIGN 2.4: connected, n >= 4, neither complete nor edgeless
	if in.G.N >= 1 {
		conn = len(graph.ConnectedComponents(graphOfJ("dense", in.G))) == 1
	}
	nt := conn && in.G.N >= 4 && len(in.G.E) > 0 && len(in.G.E) < in.G.N*(in.G.N-1)/2
	w.Emit(tr.E{"ev": "Inv", "prop": in.Prop, "g": in.G, "vars": vars, "mls": lengthBounds(in.G.N), "known": in.Known, "nt": nt})
	abortOnTimeout(stop)
}

func stdVariants(r *rand.Rand, n, relabellings int) []invVar {
	vs := []invVar{{Pi: identity(n), Rep: "dense"}, {Pi: identity(n), Rep: "sparse"}, {Pi: identity(n), Rep: "view"},
		{Pi: r.Perm(n), Rep: "coview-sparse"}, {Pi: r.Perm(n), Rep: "coview-dense"}}
	for i := 0; i < relabellings; i++ {
		vs = append(vs, invVar{Pi: r.Perm(n), Rep: []string{"dense", "sparse", "view"}[i%3]})
	}
	return vs
}

func mycielski(g gJ) gJ {
	n := g.N
	h := graph.NewDense(2*n+1, nil)
	for _, rk := range g.E {
		i, j := obs.RankToPair(rk)
		h.AddEdge(i, j)
		h.AddEdge(i, n+j)
		h.AddEdge(j, n+i)
	}
	for i := 0; i < n; i++ {
		h.AddEdge(n+i, 2*n)
	}
	return gJOf(h)
}

func invGrid(c *Ctx, prop string) []invIn {
	big := c.Thorough()
	r := rand.New(rand.NewSource(c.Seed))
	var out []invIn
	add := func(name string, g gJ, vars []invVar, known string) {
		out = append(out, invIn{Prop: prop, Name: name, G: g, Vars: vars, Known: known, Seed: c.Seed + int64(len(out))})
	}
	if prop == "C11" {
		return planarGrid(c, add)
	}
	if prop == "C09" { // hundreds of vertices, degrees beyond 127 and 255: stars, complete graphs and cycles have closed-form answers
		for _, n := range []int{129, 130, 256, 257, 300} {
			vs := []invVar{{Pi: identity(n), Rep: "dense"}, {Pi: r.Perm(n), Rep: "sparse"}}
			add("big-star", gJOf(graph.Star(n)), vs, "star")
			add("big-cycle", gJOf(graph.Cycle(n)), vs, "cycle")
			if n <= 257 {
				add("big-complete", gJOf(graph.CompleteGraph(n)), vs[:1], "complete")
			}
		}
	}
	for n := 0; n <= 4; n++ { // every labelled graph
		for _, gj := range allGraphsJ(n) {
			add("all", gj, stdVariants(r, n, 0), "")
		}
	}
	for _, gj := range classReps(5) {
		add("class5", gj, stdVariants(r, 5, 6), "")
	}
	for _, gj := range classReps(6) {
		add("class6", gj, stdVariants(r, 6, 3), "")
	}
	if big {
		for i, gj := range classReps(7) {
			if prop == "C09" && i%2 == 1 {
				continue
			}
			add("class7", gj, stdVariants(r, 7, 2), "")
		}
	} else {
		c7 := classReps(7)
		for i := 0; i < 40; i++ {
			add("class7", c7[r.Intn(len(c7))], stdVariants(r, 7, 1), "")
		}
	}
	if prop == "C09" { // graphs that need deep backtracking in the colouring search
		hard := hardGraphs()
		groetzsch := mycielski(gJOf(graph.Cycle(5)))
		add("groetzsch", groetzsch, stdVariants(r, 11, 1), "")
		add("petersen", hard["petersen"], stdVariants(r, 10, 1), "")
		add("wheel7", gJOf(func() graph.Graph { g := graph.Cycle(7); g.AddVertex([]int{0, 1, 2, 3, 4, 5, 6}); return g }()), stdVariants(r, 8, 1), "")
		add("k33", hard["k33"], stdVariants(r, 6, 2), "")
		for i := 0; i < 6; i++ {
			add("gnp", randGraphJ(r, 8+r.Intn(3), 0.5), stdVariants(r, 0, 0)[:0], "")
			last := &out[len(out)-1]
			last.Vars = stdVariants(r, last.G.N, 1)
		}
	}
	return out
}

func driveInv(c *Ctx, prop string) {
	set := tr.NewSet(c.Out, "trace", c.Shards)
	meta := map[string]interface{}{}
	finish := func() {
		meta["segments"] = set.Segs
		meta["events"] = set.Close()
		meta["timed_out"] = timedOut
		tr.WriteJSON(c.Out+"/meta.json", meta)
	}
	finishHook = finish
	var grid []invIn
	if c.In != "" {
		for _, raw := range readInputs(c.In) {
			var in invIn
			if err := json.Unmarshal(raw, &in); err != nil {
				panic(err)
			}
			grid = append(grid, in)
		}
	} else {
		grid = invGrid(c, prop)
	}
	names := map[string]int{}
	for _, in := range grid {
		names[in.Name]++
		runInv(set.Begin(in.key(), tr.E{"input": in}), in)
	}
	meta["inputs"] = names
	finish()
}
