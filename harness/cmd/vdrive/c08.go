package main

// C08: Graph6Decode / Sparse6Decode on arbitrary byte strings: every string over a 10-symbol alphabet
// up to a length bound (bare and behind the optional headers), plus mutations of valid encodings.
// Strings whose complete size header declares more than 4096 vertices are not executed (the
// acceptor re-derives the declared size and confirms every skip).

import (
	"encoding/json"
	"fmt"
	"math/rand"
	"strings"
	"time"

	"github.com/Tom-Johnston/mamba/graph"

	"verifharness/internal/obs"
	"verifharness/internal/tr"
)

func init() { drivers["C08"] = driveC08 }

type decIn struct {
	Dec   string `json:"dec"` // g6 | s6
	Bytes []int  `json:"bytes"`
}

func (in decIn) key() string {
	return fmt.Sprintf("%sDecode(%q)", map[string]string{"g6": "Graph6", "s6": "Sparse6"}[in.Dec], string(i2b(in.Bytes)))
}

// declaredN mirrors the format description: the vertex count a string declares, if its header is complete.
func declaredN(dec string, s []byte) (n uint64, defined bool) {
	if dec == "g6" {
		s = []byte(strings.TrimPrefix(string(s), ">>graph6<<"))
		if len(s) == 0 {
			return 0, true
		}
	} else {
		s = []byte(strings.TrimPrefix(string(s), ">>sparse6<<"))
		if len(s) == 0 || s[0] != ':' {
			return 0, false
		}
		s = s[1:]
	}
	for _, b := range s {
		if b < 63 || b > 126 {
			return 0, false
		}
	}
	if len(s) == 0 {
		return 0, false
	}
	if s[0] != 126 {
		return uint64(s[0] - 63), true
	}
	if len(s) >= 2 && s[1] != 126 {
		if len(s) < 4 {
			return 0, false
		}
		return uint64(s[1]-63)<<12 | uint64(s[2]-63)<<6 | uint64(s[3]-63), true
	}
	if len(s) < 8 {
		return 0, false
	}
	var v uint64
	for _, b := range s[2:8] {
		v = v<<6 | uint64(b-63)
	}
	return v, true
}

func runDecode(w *tr.W, in decIn) {
	s := string(i2b(in.Bytes))
	ev := tr.E{"ev": "Decode", "dec": in.Dec, "bytes": in.Bytes, "res": "ok", "rt_same": true, "fresh": true}
	empty, _ := obsAny(graph.NewDense(0, nil))
	ev["obs"] = empty
	if n, def := declaredN(in.Dec, []byte(s)); def && n > 4096 {
		ev["out"] = "skip"
		w.Emit(ev)
		return
	}
	var g graph.Graph
	var err error
	same := true
	// every call returns its own graph: an earlier result of the same string is edited first, which must not show in this one
	obs.SafeT(3*time.Second, func() {
		var prev graph.EditableGraph
		var e0 error
		if in.Dec == "g6" {
			var d *graph.DenseGraph
			d, e0 = graph.Graph6Decode(s)
			if e0 == nil && d != nil {
				prev = d
			}
		} else {
			var d *graph.SparseGraph
			d, e0 = graph.Sparse6Decode(s)
			if e0 == nil && d != nil {
				prev = d
			}
		}
		if prev != nil {
			prev.AddVertex([]int{})
			if prev.N() >= 2 {
				if prev.IsEdge(0, 1) {
					prev.RemoveEdge(0, 1)
				} else {
					prev.AddEdge(0, 1)
				}
			}
		}
	})
	res := obs.SafeT(3*time.Second, func() {
		if in.Dec == "g6" {
			var d *graph.DenseGraph
			d, err = graph.Graph6Decode(s)
			if err == nil {
				g = d
				d2, e2 := graph.Graph6Decode(graph.Graph6Encode(d))
				same = e2 == nil && d2.N() == d.N() && graph.Equal(d, d2)
			}
		} else {
			var d *graph.SparseGraph
			d, err = graph.Sparse6Decode(s)
			if err == nil {
				g = d
				d2, e2 := graph.Sparse6Decode(graph.Sparse6Encode(d))
				same = e2 == nil && d2.N() == d.N() && graph.Equal(d, d2)
			}
		}
	})
	switch {
	case res == "timeout":
		ev["out"], ev["res"] = "timeout", res
	case res != "ok":
		ev["out"], ev["res"] = "crash", res
	case err != nil:
		ev["out"] = "err"
	default:
		o, r := obsAny(g)
		ev["out"], ev["obs"], ev["rt_same"] = "graph", o, same
		if r != "ok" {
			ev["out"], ev["res"] = "crash", "observer "+r
		}
	}
	w.Emit(ev)
	abortOnTimeout(res)
}

var c08Alphabet = []int{58, 62, 63, 64, 65, 66, 94, 125, 126, 127}

func decodeGrid(c *Ctx) []decIn {
	big := c.Thorough()
	r := rand.New(rand.NewSource(c.Seed))
	var out []decIn
	maxLen := 4
	if big {
		maxLen = 5
	}
	both := func(b []int) {
		out = append(out, decIn{"g6", b}, decIn{"s6", b})
		out = append(out, decIn{"s6", append([]int{58}, b...)})
	}
	for _, s := range allWords(c08Alphabet, maxLen) {
		both(s)
		if len(s) <= 3 {
			out = append(out, decIn{"g6", append(bytesJ(">>graph6<<"), s...)})
			out = append(out, decIn{"s6", append(bytesJ(">>sparse6<<:"), s...)})
			out = append(out, decIn{"s6", append(bytesJ(">>sparse6<<"), s...)})
		}
	}
	// mutations of valid encodings
	nm := 400
	if big {
		nm = 4000
	}
	for i := 0; i < nm; i++ {
		n := []int{1, 2, 3, 4, 5, 8, 9, 16, 17, 30, 62, 63, 64, 70}[r.Intn(14)]
		gj := randGraphJ(r, n, []float64{0.1, 0.5, 0.9}[r.Intn(3)])
		var enc []byte
		dec := "g6"
		if i%2 == 0 {
			enc = []byte(graph.Graph6Encode(graphOfJ("dense", gj)))
		} else {
			dec = "s6"
			enc = []byte(graph.Sparse6Encode(graphOfJ("sparse", gj)))
		}
		b := b2i(enc)
		switch r.Intn(6) {
		case 0: // truncate
			b = b[:r.Intn(len(b)+1)]
		case 1: // extend
			for k := 0; k < 1+r.Intn(4); k++ {
				b = append(b, []int{63, 126, 64 + r.Intn(60)}[r.Intn(3)])
			}
		case 2: // flip a byte (possibly out of range)
			if len(b) > 0 {
				b[r.Intn(len(b))] = []int{0, 10, 62, 63, 126, 127, 200, 255}[r.Intn(8)]
			}
		case 3: // change the size byte: smaller or larger n than the data was written for
			k := 0
			if dec == "s6" {
				k = 1
			}
			if len(b) > k {
				b[k] = 63 + r.Intn(63)
			}
		case 4: // splice a long header in front of the data
			hdr := []int{126, 63 + r.Intn(2), 63 + r.Intn(64), 63 + r.Intn(64)}
			if dec == "s6" {
				b = append(append([]int{58}, hdr...), b[2:]...)
			} else {
				b = append(hdr, b[1:]...)
			}
		default: // random bytes in range after a valid header
			for k := 2; k < len(b); k++ {
				if r.Intn(3) == 0 {
					b[k] = 63 + r.Intn(64)
				}
			}
		}
		out = append(out, decIn{dec, b})
	}
	// sparse6 streams enumerated at the level of the format's (b, x) pairs: EVERY sequence of at most L pairs for small n, padded with
	// 1-bits (as a writer would) and, for the short ones, with 0-bits: loops (x = v), jumps (x > v), repeated edges, x >= n, b = 1 runs
	// that leave 0..n-1 - streams no encoder of this library writes but any sparse6 reader must survive
	{
		type cfg struct{ n, k, L int }
		cfgs := []cfg{{2, 1, 5}, {3, 2, 4}, {4, 2, 4}, {5, 3, 3}, {8, 3, 2}, {9, 4, 2}}
		if big {
			cfgs = []cfg{{2, 1, 6}, {3, 2, 4}, {4, 2, 4}, {5, 3, 3}, {7, 3, 3}, {8, 3, 3}, {9, 4, 2}, {16, 4, 2}, {17, 5, 2}}
		}
		for _, cf := range cfgs {
			vals := 1 << uint(cf.k+1)
			var rec func(bits []int, pairs int)
			emit := func(bits []int, fill int) {
				b := append([]int{}, bits...)
				for len(b)%6 != 0 {
					b = append(b, fill)
				}
				str := []int{58, 63 + cf.n}
				for i := 0; i < len(b); i += 6 {
					v := 0
					for j := 0; j < 6; j++ {
						v = 2*v + b[i+j]
					}
					str = append(str, 63+v)
				}
				out = append(out, decIn{"s6", str})
			}
			rec = func(bits []int, pairs int) {
				if pairs > 0 {
					emit(bits, 1)
					if pairs <= 2 && len(bits)%6 != 0 {
						emit(bits, 0)
					}
				}
				if pairs == cf.L {
					return
				}
				for v := 0; v < vals; v++ {
					nb := append([]int{}, bits...)
					for j := cf.k; j >= 0; j-- {
						nb = append(nb, (v>>uint(j))&1)
					}
					rec(nb, pairs+1)
				}
			}
			rec(nil, 0)
		}
	}
	// graph6: every data byte (combination) for n = 2..5, i.e. every adjacency bit pattern together with every value of the padding bits
	for n := 2; n <= 5; n++ {
		nb := (n*(n-1)/2 + 5) / 6
		for v := 0; v < 1<<uint(6*nb); v++ {
			str := []int{63 + n}
			for k := nb - 1; k >= 0; k-- {
				str = append(str, 63+(v>>uint(6*k))&63)
			}
			out = append(out, decIn{"g6", str})
		}
	}
	for _, s := range []string{"", ":", "~", "~~", ":~", ":~~", "~?", ":~?", "~??", "~~?????", ":~~?????", ">>graph6<<", ">>sparse6<<", ">>sparse6<<:", ">>graph6<<~", ":?", ":@", ":A", ":A_", ":An", ":B", ":Bo", ":~?@A", "~?@A", "~@??", ":~@??", "~@?@", ":~@?@"} {
		out = append(out, decIn{"g6", bytesJ(s)}, decIn{"s6", bytesJ(s)})
	}
	return out
}

func driveC08(c *Ctx) {
	set := tr.NewSet(c.Out, "trace", c.Shards)
	meta := map[string]interface{}{}
	finish := func() {
		meta["segments"] = set.Segs
		meta["events"] = set.Close()
		meta["timed_out"] = timedOut
		tr.WriteJSON(c.Out+"/meta.json", meta)
	}
	finishHook = finish
	if c.In != "" {
		for _, raw := range readInputs(c.In) {
			var in decIn
			if err := json.Unmarshal(raw, &in); err != nil {
				panic(err)
			}
			runDecode(set.Begin(in.key(), tr.E{"input": in}), in)
		}
		finish()
		return
	}
	n := 0
	for _, in := range decodeGrid(c) {
		if in.Bytes == nil {
			in.Bytes = []int{}
		}
		runDecode(set.Begin(in.key(), tr.E{"input": in}), in)
		n++
	}
	meta["strings"] = n
	finish()
}
