package main

// Generic handling of TLC transition dumps: lines `<<"T", "{f:..,a:..,r:..,t:..}">>` printed by a
// DumpNext action under a VIEW, i.e. every transition of the specification's state graph once.

import (
	"encoding/json"
)

type GT struct {
	F json.RawMessage `json:"f"`
	A json.RawMessage `json:"a"`
	R json.RawMessage `json:"r"`
	T json.RawMessage `json:"t"`
}

type GenGraph struct {
	Trans  []GT
	parent map[string]int
}

func loadGen(path string) *GenGraph { return loadGenTag(path, "T") }

func loadGenTag(path, tag string) *GenGraph {
	g := &GenGraph{}
	readGenLines(path, tag, func(js string) {
		var t GT
		if err := json.Unmarshal([]byte(js), &t); err != nil {
			panic(err)
		}
		t.F, t.T = canonJSON(t.F), canonJSON(t.T) // TLC prints record fields in varying order
		g.Trans = append(g.Trans, t)
	})
	return g
}

// bfs computes a shortest-path tree from the initial state (the source of the first dumped
// transition: TLC explores breadth first from Init with one worker).
func (g *GenGraph) bfs() {
	out := map[string][]int{}
	for i, t := range g.Trans {
		out[string(t.F)] = append(out[string(t.F)], i)
	}
	init := string(g.Trans[0].F)
	g.parent = map[string]int{init: -1}
	queue := []string{init}
	for len(queue) > 0 {
		s := queue[0]
		queue = queue[1:]
		for _, i := range out[s] {
			k := string(g.Trans[i].T)
			if _, ok := g.parent[k]; !ok {
				g.parent[k] = i
				queue = append(queue, k)
			}
		}
	}
}

// History returns the indices of a shortest genuine history ending with transition i.
func (g *GenGraph) History(i int) []int {
	if g.parent == nil {
		g.bfs()
	}
	k := string(g.Trans[i].F)
	if _, ok := g.parent[k]; !ok {
		panic("generator transition from a state that is not reachable in the dump")
	}
	p := []int{i}
	for g.parent[k] >= 0 {
		j := g.parent[k]
		p = append([]int{j}, p...)
		k = string(g.Trans[j].F)
	}
	return p
}

func capMismatches(m []Mismatch, n int) []Mismatch {
	if m == nil {
		return []Mismatch{}
	}
	sortMismatches(m)
	if len(m) > n {
		m = m[:n]
	}
	return m
}

// canonJSON re-encodes a JSON value with sorted object keys, so that equal states have equal text.
func canonJSON(raw json.RawMessage) json.RawMessage {
	var v interface{}
	if err := json.Unmarshal(raw, &v); err != nil {
		panic(err)
	}
	out, err := json.Marshal(v)
	if err != nil {
		panic(err)
	}
	return out
}
