package main

// C16: comb.CoeffUint64 / Coeff / Coeffs / Rank / Unrank.  64-bit quantities are logged as base-10^4
// limb sequences (least significant first) for CombTrace.tla, which judges every call with exact
// arithmetic.  The refusal thresholds live in the code (a table), so the driver observes them by
// binary search and logs the calls on both sides of each.

import (
	"encoding/json"
	"fmt"
	"math"
	"math/big"
	"math/rand"
	"time"

	"github.com/Tom-Johnston/mamba/comb"
	"github.com/Tom-Johnston/mamba/itertools"

	"verifharness/internal/obs"
	"verifharness/internal/tr"
)

func init() { drivers["C16"] = driveC16 }

type combIn struct {
	Op string   `json:"op"` // Coeff64 | Coeff | Coeffs | Rank | Unrank | Colex
	N  string   `json:"n"`  // decimal
	K  string   `json:"k"`  // decimal
	S  []string `json:"s"`  // Rank input (decimal ints)
}

func (in combIn) key() string {
	switch in.Op {
	case "Rank":
		return fmt.Sprintf("Rank(%v)", in.S)
	case "Unrank":
		return fmt.Sprintf("Unrank(r=%s,k=%s)", in.N, in.K)
	}
	return fmt.Sprintf("%s(%s,%s)", in.Op, in.N, in.K)
}

func limbsBig(x *big.Int) []int {
	out := []int{}
	v := new(big.Int).Set(x)
	base := big.NewInt(10000)
	m := new(big.Int)
	for v.Sign() > 0 {
		v.DivMod(v, base, m)
		out = append(out, int(m.Int64()))
	}
	return out
}
func limbsU(x uint64) []int { return limbsBig(new(big.Int).SetUint64(x)) }
func limbsI(x int) []int    { return limbsBig(big.NewInt(int64(x))) }
func parseBig(s string) *big.Int {
	v, ok := new(big.Int).SetString(s, 10)
	if !ok {
		panic("bad decimal " + s)
	}
	return v
}

func runComb(w *tr.W, in combIn) {
	switch in.Op {
	case "Coeff64":
		n, k := parseBig(in.N).Uint64(), parseBig(in.K).Uint64()
		var v uint64
		res := obs.Safe(func() { v = comb.CoeffUint64(n, k) })
		w.Emit(tr.E{"ev": "Coeff64", "n": limbsU(n), "k": limbsU(k), "nneg": false, "kneg": false, "res": res, "v": limbsU(v)})
	case "Coeff":
		nb, kb := parseBig(in.N), parseBig(in.K)
		n, k := int(nb.Int64()), int(kb.Int64())
		var v int
		res := obs.Safe(func() { v = comb.Coeff(n, k) })
		if v < 0 {
			res = "crash:negative result"
			v = 0
		}
		w.Emit(tr.E{"ev": "Coeff", "n": limbsBig(new(big.Int).Abs(nb)), "k": limbsBig(new(big.Int).Abs(kb)), "nneg": n < 0, "kneg": k < 0, "res": res, "v": limbsI(v)})
	case "Coeffs":
		n := int(parseBig(in.N).Int64())
		var rows [][]int
		res := obs.Safe(func() { rows = comb.Coeffs(n) })
		out := [][][]int{}
		for _, r := range rows {
			row := [][]int{}
			for _, v := range r {
				if v < 0 {
					res = "crash:negative entry (wrapped)"
					v = 0
				}
				row = append(row, limbsI(v))
			}
			out = append(out, row)
		}
		w.Emit(tr.E{"ev": "Coeffs", "n": n, "res": res, "rows": out})
	case "Rank":
		s := make([]int, len(in.S))
		sl := [][]int{}
		for i, d := range in.S {
			s[i] = int(parseBig(d).Int64())
			sl = append(sl, limbsI(s[i]))
		}
		var r int
		res := obs.Safe(func() { r = comb.Rank(s) })
		if r < 0 {
			res, r = "crash:negative rank (wrapped)", 0
		}
		w.Emit(tr.E{"ev": "Rank", "s": sl, "res": res, "r": limbsI(r)})
	case "Unrank":
		r, k := int(parseBig(in.N).Int64()), int(parseBig(in.K).Int64())
		var s []int
		res := obs.SafeT(20*time.Second, func() { s = comb.Unrank(r, k) }) // generous: Unrank walks linearly and the machine may be loaded
		sl := [][]int{}
		for _, v := range s {
			if v < 0 {
				res = "crash:negative element"
				v = 0
			}
			sl = append(sl, limbsI(v))
		}
		w.Emit(tr.E{"ev": "Unrank", "r": limbsI(r), "k": k, "res": res, "s": sl})
		abortOnTimeout(res)
	case "Colex":
		n, k := int(parseBig(in.N).Int64()), int(parseBig(in.K).Int64())
		sets, unr := [][]int{}, [][]int{}
		ranks := []int{}
		res := obs.SafeT(5*time.Second, func() {
			it := itertools.CombinationsColex(n, k)
			for i := 0; it.Next() && i < 5000; i++ {
				v := cp(it.Value())
				sets = append(sets, v)
				ranks = append(ranks, comb.Rank(v))
				unr = append(unr, cp(comb.Unrank(i, k)))
			}
		})
		w.Emit(tr.E{"ev": "Colex", "n": n, "k": k, "res": res, "sets": sets, "ranks": ranks, "unr": unr})
		abortOnTimeout(res)
	}
}

func u(s uint64) string { return new(big.Int).SetUint64(s).String() }

// refuses reports whether CoeffUint64(n, k) panics.
func refuses(n, k uint64) bool {
	return obs.Safe(func() { comb.CoeffUint64(n, k) }) != "ok"
}

func combGrid(c *Ctx) []combIn {
	big_ := c.Thorough()
	r := rand.New(rand.NewSource(c.Seed))
	var out []combIn
	add := func(op, n, k string) { out = append(out, combIn{Op: op, N: n, K: k}) }
	for n := 0; n <= 70; n++ {
		for k := 0; k <= n+1; k++ {
			add("Coeff64", fmt.Sprint(n), fmt.Sprint(k))
			if (n+k)%3 == 0 {
				add("Coeff", fmt.Sprint(n), fmt.Sprint(k))
			}
		}
	}
	// observed refusal threshold for every k: binary search for the largest n that is not refused
	for k := uint64(1); k <= 40; k++ {
		if !refuses(math.MaxUint64, k) {
			for _, n := range []uint64{math.MaxUint64, math.MaxUint64 - 1, 1 << 63, 1<<63 - 1, 1 << 32, 1<<32 + 1} {
				add("Coeff64", u(n), u(k))
				add("Coeff64", u(n), u(n-k))
			}
			continue
		}
		lo, hi := uint64(2*k), uint64(math.MaxUint64) // lo not refused (if it is, the acceptor will say whether that is legitimate)
		if refuses(lo, k) {
			add("Coeff64", u(lo), u(k))
			continue
		}
		for hi-lo > 1 {
			mid := lo + (hi-lo)/2
			if refuses(mid, k) {
				hi = mid
			} else {
				lo = mid
			}
		}
		for d := int64(-3); d <= 3; d++ {
			n := uint64(int64(lo) + d)
			add("Coeff64", u(n), u(k))
			add("Coeff64", u(n), u(n-k)) // the symmetric call
			if n <= math.MaxInt64 {
				add("Coeff", u(n), u(k))
			}
		}
		// points well below and above the observed threshold
		for t := 0; t < 6; t++ {
			n := 2*k + uint64(r.Int63n(int64(lo-2*k)+1))
			add("Coeff64", u(n), u(k))
			n2 := lo + 1 + uint64(r.Int63n(1<<40))
			add("Coeff64", u(n2), u(k))
		}
	}
	// the true thresholds of the step-by-step product for k = 2..31 (both sides), independent of what the code does
	for k := 2; k <= 33; k++ {
		t := trueThreshold(k)
		for d := int64(-2); d <= 2; d++ {
			n := new(big.Int).Add(t, big.NewInt(d))
			if n.IsUint64() {
				add("Coeff64", n.String(), fmt.Sprint(k))
			}
		}
	}
	nrand := 300
	if big_ {
		nrand = 3000
	}
	for i := 0; i < nrand; i++ {
		n := r.Uint64() >> uint(r.Intn(60))
		k := uint64(r.Intn(45))
		if r.Intn(4) == 0 && n > 0 {
			k = n - uint64(r.Intn(45))%n
		}
		add("Coeff64", u(n), u(k))
	}
	add("Coeff", "-1", "0")
	add("Coeff", "5", "-1")
	add("Coeff", "0", "0")
	for _, n := range []int{0, 1, 2, 10, 33, 34, 60, 66, 67, 68, 70} {
		add("Coeffs", fmt.Sprint(n), "0")
	}
	for n := 0; n <= 9; n++ {
		for k := 0; k <= n+1; k++ {
			add("Colex", fmt.Sprint(n), fmt.Sprint(k))
		}
	}
	// Unrank: small ranks exhaustively, ranks around every C(n,k) boundary, seeded large ranks inside the feasible range
	maxR := 1500
	if big_ {
		maxR = 6000
	}
	for k := 0; k <= 6; k++ {
		for rk := 0; rk <= maxR; rk++ {
			if (k >= 5 && rk%3 != 0) || (k == 0 && rk > 0) { // the empty set is the only 0-subset: only rank 0 exists
				continue
			}
			add("Unrank", fmt.Sprint(rk), fmt.Sprint(k))
		}
	}
	for k := 1; k <= 12; k++ {
		for t := 0; t < 40; t++ {
			var rk int64
			switch {
			case k == 1:
				rk = r.Int63n(1000000)
			case k == 2:
				rk = r.Int63n(50000000000000)
			default:
				rk = r.Int63() >> uint(r.Intn(40))
			}
			add("Unrank", fmt.Sprint(rk), fmt.Sprint(k))
		}
		if k >= 3 {
			for _, rk := range []int64{math.MaxInt64, math.MaxInt64 - 1, 1 << 62, 1333313333400026, 1 << 53} {
				add("Unrank", fmt.Sprint(rk), fmt.Sprint(k))
			}
		}
	}
	// every k up to 220 with ranks at the top of the int range (the elements are then only a little larger than k)
	for k := 13; k <= 220; k++ {
		for _, rk := range []int64{math.MaxInt64, math.MaxInt64 - 1, math.MaxInt64/2 + r.Int63n(1<<61), 3130921572628162950 + r.Int63n(1<<40), r.Int63() >> uint(r.Intn(50)), int64(r.Intn(100))} {
			add("Unrank", fmt.Sprint(rk), fmt.Sprint(k))
		}
	}
	// ranks that are exact sums of one or two binomials, C(l,k) and C(l,k)+C(l2,k-1): the ranks of {0..k-2,l} and {0..k-3,l2,l}; the
	// residue reaches 0 while coefficients close to the top of the int range are still in play (aimed with math/big, judged by the acceptor)
	maxInt := big.NewInt(math.MaxInt64)
	for k := 4; k <= 64; k++ { // k <= 3 would need elements beyond 10^6: Unrank walks up to the element linearly (feasibility bound of DESIGN 6)
		top := int64(k)
		for new(big.Int).Binomial(top+1, int64(k)).Cmp(maxInt) <= 0 {
			top++
		}
		for _, l := range []int64{top, top - 1, (top + int64(k)) / 2, int64(k) + 1} {
			if l < int64(k) {
				continue
			}
			b := new(big.Int).Binomial(l, int64(k))
			add("Unrank", b.String(), fmt.Sprint(k))
			if b.Sign() > 0 {
				add("Unrank", new(big.Int).Sub(b, big.NewInt(1)).String(), fmt.Sprint(k))
			}
			for _, l2 := range []int64{l - 1, int64(k) - 1 + (l-int64(k))/2} {
				if l2 < int64(k)-1 || l2 >= l {
					continue
				}
				sum := new(big.Int).Add(b, new(big.Int).Binomial(l2, int64(k)-1))
				if sum.Cmp(maxInt) <= 0 {
					add("Unrank", sum.String(), fmt.Sprint(k))
				}
			}
		}
	}
	add("Unrank", "50000000000000", "2")
	add("Unrank", "3500000000001", "2")
	// Rank: seeded increasing sequences, small and large elements
	for i := 0; i < 400; i++ {
		k := 1 + r.Intn(8)
		s := []string{}
		cur := int64(r.Intn(5))
		span := []int64{3, 10, 1000, 1 << 20, 1 << 40}[r.Intn(5)]
		if k >= 4 && span > 1<<20 {
			span = 1 << 12
		}
		for j := 0; j < k; j++ {
			s = append(s, fmt.Sprint(cur))
			cur += 1 + r.Int63n(span)
		}
		out = append(out, combIn{Op: "Rank", S: s})
	}
	// large, nearly full sets {0..a-1} + {a+g..a+g+h-1}: every term C(v, i+1) = C(v, g-1) is small enough to compute, but for g = 11, 12 the
	// SUM passes the int range before the last term is added (Rank must then refuse, not return a wrapped value)
	for _, a := range []int{20, 150, 290} {
		for _, g := range []int{2, 6, 11, 12} {
			for h := 1; h <= 8; h++ {
				if a < 290 && h%3 != 1 {
					continue
				}
				set := []string{}
				for v := 0; v < a; v++ {
					set = append(set, fmt.Sprint(v))
				}
				for v := a + g; v < a+g+h; v++ {
					set = append(set, fmt.Sprint(v))
				}
				out = append(out, combIn{Op: "Rank", S: set})
			}
		}
	}
	out = append(out, combIn{Op: "Rank", S: []string{}})
	out = append(out, combIn{Op: "Rank", S: []string{fmt.Sprint(int64(math.MaxInt64))}})
	out = append(out, combIn{Op: "Rank", S: []string{"4294967296", "4294967297"}})
	out = append(out, combIn{Op: "Rank", S: []string{"3329021", "3329022", "3329023"}})
	return out
}

// trueThreshold: the largest n with C(n,k)*k < 2^64 (driver-side arithmetic with math/big, used only to aim
// test points at the interesting region; the verdict is the acceptor's).
func trueThreshold(k int) *big.Int {
	two64 := new(big.Int).Lsh(big.NewInt(1), 64)
	fits := func(n *big.Int) bool {
		b := new(big.Int).Binomial(n.Int64(), int64(k))
		if !n.IsInt64() {
			return false
		}
		return b.Mul(b, big.NewInt(int64(k))).Cmp(two64) < 0
	}
	lo, hi := big.NewInt(int64(2*k)), new(big.Int).Lsh(big.NewInt(1), 62)
	if k == 2 {
		return big.NewInt(4294967296)
	}
	for new(big.Int).Sub(hi, lo).Cmp(big.NewInt(1)) > 0 {
		mid := new(big.Int).Add(lo, hi)
		mid.Rsh(mid, 1)
		if fits(mid) {
			lo = mid
		} else {
			hi = mid
		}
	}
	return lo
}

func driveC16(c *Ctx) {
	set := tr.NewSet(c.Out, "trace", c.Shards)
	meta := map[string]interface{}{}
	finish := func() {
		meta["segments"] = set.Segs
		meta["events"] = set.Close()
		meta["timed_out"] = timedOut
		tr.WriteJSON(c.Out+"/meta.json", meta)
	}
	finishHook = finish
	if c.In != "" {
		for _, raw := range readInputs(c.In) {
			var in combIn
			if err := json.Unmarshal(raw, &in); err != nil {
				panic(err)
			}
			runComb(set.Begin(in.key(), tr.E{"input": in}), in)
		}
		finish()
		return
	}
	per := map[string]int{}
	for _, in := range combGrid(c) {
		per[in.Op]++
		runComb(set.Begin(in.key(), tr.E{"input": in}), in)
	}
	meta["calls"] = per
	finish()
}
