package main

// C06: every graph the library constructs is well formed and matches its definition.
// One Construct event per call (observation of the result, and a second observation after the
// caller's input slices were overwritten / of a second identical call); ViewOp segments for the
// live views.  Validated by CodecTrace.tla against Families.tla.

import (
	"encoding/json"
	"fmt"
	"math/rand"

	"github.com/Tom-Johnston/mamba/graph"
	"github.com/Tom-Johnston/mamba/sortints"

	"verifharness/internal/obs"
	"verifharness/internal/tr"
)

func init() { drivers["C06"] = driveC06 }

type gJ struct {
	N int   `json:"n"`
	E []int `json:"e"`
}

func (g gJ) String() string { return fmt.Sprintf("{n=%d,e=%v}", g.N, g.E) }

type consIn struct {
	Fam string `json:"fam"`
	P   []int  `json:"p"`
	M   []int  `json:"m"`
	G   gJ     `json:"g"`
	Rep string `json:"rep"`
}

func (in consIn) key() string {
	s := fmt.Sprintf("%s(p=%v,m=%v", in.Fam, in.P, in.M)
	if in.G.N > 0 || len(in.G.E) > 0 {
		s += ",g=" + in.G.String()
	}
	if in.Rep != "" {
		s += "," + in.Rep
	}
	return s + ")"
}

const fullObsMax = 9

// obsAny observes a graph fully (n <= 9) or "lite" (no adjacency matrix) above.
func obsAny(g graph.Graph) (tr.E, string) {
	var out tr.E
	res := obs.Safe(func() {
		n := g.N()
		if n <= fullObsMax {
			o := obs.Of(g)
			out = tr.E{"kind": "full", "n": o.N, "m": o.M, "deg": o.Deg, "nbr": o.Nbr, "adj": o.Adj}
			return
		}
		deg := append([]int{}, g.Degrees()...)
		nbr := make([][]int, n)
		for i := 0; i < n; i++ {
			nbr[i] = append([]int{}, g.Neighbours(i)...)
		}
		out = tr.E{"kind": "lite", "n": n, "m": g.M(), "deg": deg, "nbr": nbr, "adj": [][]int{}}
	})
	if res != "ok" {
		out = tr.E{"kind": "lite", "n": -1, "m": 0, "deg": []int{}, "nbr": [][]int{}, "adj": [][]int{}}
	}
	return out, res
}

func graphOfJ(rep string, g gJ) graph.EditableGraph { return newGraph(rep, g.N, g.E) }

// sparse6Shuffled writes g in sparse6 the way the format allows but the library's encoder never does: the edges {x, v}, x < v, grouped by
// v in increasing order, the x of one v in random order and now and then twice (n <= 62, no special padding case needed: the harness
// always ends with a pair that moves v to n-1 when n is 2, 4, 8 or 16).
func sparse6Shuffled(r *rand.Rand, g gJ) []int {
	n := g.N
	k := 0
	for (1 << uint(k)) < n {
		k++
	}
	by := map[int][]int{}
	for _, rk := range g.E {
		x, v := obs.RankToPair(rk)
		by[v] = append(by[v], x)
	}
	var bits []int
	put := func(b, x int) {
		bits = append(bits, b)
		for i := k - 1; i >= 0; i-- {
			bits = append(bits, (x>>uint(i))&1)
		}
	}
	cur := 0
	for v := 0; v < n; v++ {
		xs := by[v]
		if len(xs) == 0 {
			continue
		}
		r.Shuffle(len(xs), func(a, b int) { xs[a], xs[b] = xs[b], xs[a] })
		if r.Intn(3) == 0 {
			xs = append(xs, xs[r.Intn(len(xs))])
		}
		if v > cur+1 {
			put(1, v) // x > v: set v
			cur = v
		}
		for i, x := range xs {
			if i == 0 && v == cur+1 {
				put(1, x)
				cur = v
			} else {
				put(0, x)
			}
		}
	}
	if n > 1 && cur < n-1 && (n == 2 || n == 4 || n == 8 || n == 16) {
		put(1, n-1) // move to the last vertex (x = n-1 > v sets v, or the pair is an ignored loop) so that 1-padding cannot be read as a loop there
	}
	for len(bits)%6 != 0 {
		bits = append(bits, 1)
	}
	out := []int{58, n + 63}
	for i := 0; i < len(bits); i += 6 {
		c := 0
		for j := 0; j < 6; j++ {
			c = c<<1 | bits[i+j]
		}
		out = append(out, c+63)
	}
	return out
}

func scribble(s []int) {
	for i := range s {
		s[i] = s[i]*7 + 3
	}
}

// construct performs the call. It returns the result, a function that overwrites every slice the
// caller passed in (nil if there is none) and a function that repeats the call (nil if pointless).
func construct(in consIn) (g graph.Graph, mutate func(), again func() graph.Graph) {
	p, m := in.P, cp(in.M)
	switch in.Fam {
	case "Complete":
		return graph.CompleteGraph(p[0]), nil, nil
	case "CompletePartite":
		return graph.CompletePartiteGraph(m...), func() { scribble(m) }, nil
	case "Path":
		return graph.Path(p[0]), nil, nil
	case "Cycle":
		return graph.Cycle(p[0]), nil, nil
	case "Star":
		return graph.Star(p[0]), nil, nil
	case "Friendship":
		return graph.FriendshipGraph(p[0]), nil, nil
	case "Hypercube":
		return graph.HypercubeGraph(p[0]), nil, nil
	case "FoldedHypercube":
		return graph.FoldedHypercubeGraph(p[0]), nil, nil
	case "FlowerSnark":
		return graph.FlowerSnark(p[0]), nil, nil
	case "Rook":
		return graph.RookGraph(p[0], p[1]), nil, nil
	case "Kneser":
		return graph.KneserGraph(p[0], p[1]), nil, nil
	case "BipartiteKneser":
		return graph.BipartiteKneserGraph(p[0], p[1]), nil, nil
	case "Circulant":
		return graph.CirculantGraph(p[0], m...), func() { scribble(m) }, nil
	case "CirculantBipartite":
		return graph.CirculantBipartiteGraph(p[0], p[1], m...), func() { scribble(m) }, nil
	case "GeneralisedPetersen":
		return graph.GeneralisedPetersenGraph(p[0], p[1]), nil, nil
	case "NewDense":
		b := make([]byte, len(m))
		for i, v := range m {
			b[i] = byte(v)
		}
		return graph.NewDense(p[0], b), func() {
			for i := range b {
				b[i] = 1 - b[i]&1
			}
		}, nil
	case "NewDenseNil":
		return graph.NewDense(p[0], nil), nil, nil
	case "NewSparseNil":
		return graph.NewSparse(p[0], nil), nil, nil
	case "NewSparse":
		nb := make([]sortints.SortedInts, in.G.N)
		for i := range nb {
			nb[i] = sortints.SortedInts{}
		}
		for _, r := range in.G.E {
			i, j := obs.RankToPair(r)
			nb[i] = append(nb[i], j)
			nb[j] = append(nb[j], i)
		}
		return graph.NewSparse(in.G.N, nb), func() {
			for i := range nb {
				for k := range nb[i] {
					nb[i][k] = (nb[i][k] + 1) % (in.G.N + 1)
				}
				nb[i] = nil
			}
		}, nil
	case "RandomGraph":
		f := func() graph.Graph { return graph.RandomGraph(p[0], float64(p[1])/100, int64(p[2])) }
		return f(), nil, f
	case "RandomTree":
		f := func() graph.Graph { return graph.RandomTree(p[0], int64(p[1])) }
		return f(), nil, f
	case "ComplementDense":
		return graph.ComplementDense(graphOfJ(in.Rep, in.G)), nil, nil
	case "ComplementView":
		return graph.Complement(graphOfJ(in.Rep, in.G)), nil, nil
	case "LineGraphDense":
		return graph.LineGraphDense(graphOfJ(in.Rep, in.G)), nil, nil
	case "InducedView":
		// a live view keeps referring to g and V by design; the "caller modifies the slice afterwards" clause of C06 is
		// about NewDense / NewSparse, so V is left alone here
		return graph.InducedSubgraph(graphOfJ(in.Rep, in.G), m), nil, nil
	case "SplitEdge":
		h := graphOfJ(in.Rep, in.G)
		graph.SplitEdge(h, p[0], p[1])
		return h, nil, nil
	case "Contract":
		h := graphOfJ(in.Rep, in.G)
		graph.Contract(h, p[0], p[1])
		return h, nil, nil
	case "ContractSplit": // two transformations on the SAME graph object: Contract(g, p0, p1), then SplitEdge(g, p2, p3)
		h := graphOfJ(in.Rep, in.G)
		graph.Contract(h, p[0], p[1])
		graph.SplitEdge(h, p[2], p[3])
		return h, nil, nil
	case "SplitContract":
		h := graphOfJ(in.Rep, in.G)
		graph.SplitEdge(h, p[0], p[1])
		graph.Contract(h, p[2], p[3])
		return h, nil, nil
	case "PruferDecodeOf":
		return graph.PruferDecode(m), func() { scribble(m) }, nil
	case "MulticodeDecodeOf":
		b := graph.MulticodeEncode(graphOfJ("dense", in.G))
		return graph.MulticodeDecode(b), func() {
			for i := range b {
				b[i] = 0
			}
		}, nil
	case "Graph6DecodeOf":
		g, err := graph.Graph6Decode(graph.Graph6Encode(graphOfJ("dense", in.G)))
		if err != nil {
			panic("decode error: " + err.Error())
		}
		return g, nil, nil
	case "Sparse6DecodeShuffled": // a format-valid sparse6 string of in.G written by the harness: smaller endpoints in any order, some edges twice
		g, err := graph.Sparse6Decode(string(i2b(m)))
		if err != nil {
			panic("decode error: " + err.Error())
		}
		return g, nil, nil
	case "Sparse6DecodeOf":
		g, err := graph.Sparse6Decode(graph.Sparse6Encode(graphOfJ("sparse", in.G)))
		if err != nil {
			panic("decode error: " + err.Error())
		}
		return g, nil, nil
	}
	panic("unknown family " + in.Fam)
}

func runConstruct(w *tr.W, in consIn) {
	if in.P == nil {
		in.P = []int{}
	}
	if in.M == nil {
		in.M = []int{}
	}
	if in.G.E == nil {
		in.G.E = []int{}
	}
	var g graph.Graph
	var mutate func()
	var again func() graph.Graph
	res := obs.SafeT(5e9, func() { g, mutate, again = construct(in) })
	ev := tr.E{"ev": "Construct", "fam": in.Fam, "p": in.P, "m": in.M, "g": in.G, "rep": in.Rep, "res": res}
	empty, _ := obsAny(graph.NewDense(0, nil))
	if res != "ok" {
		ev["obs"], ev["obs2"] = empty, empty
		w.Emit(ev)
		abortOnTimeout(res)
		return
	}
	o1, r1 := obsAny(g)
	if r1 != "ok" {
		ev["res"] = "crash:observer " + r1
	}
	if mutate != nil {
		mutate()
	}
	if again != nil {
		g = again()
	}
	o2, r2 := obsAny(g)
	if r2 != "ok" && r1 == "ok" {
		ev["res"] = "crash:observer after input mutation " + r2
	}
	ev["obs"], ev["obs2"] = o1, o2
	w.Emit(ev)
}

func allGraphsJ(n int) []gJ {
	m := n * (n - 1) / 2
	out := []gJ{}
	for mask := 0; mask < 1<<uint(m); mask++ {
		e := []int{}
		for r := 0; r < m; r++ {
			if mask&(1<<uint(r)) != 0 {
				e = append(e, r)
			}
		}
		out = append(out, gJ{N: n, E: e})
	}
	return out
}

func randGraphJ(r *rand.Rand, n int, p float64) gJ {
	e := []int{}
	for k := 0; k < n*(n-1)/2; k++ {
		if r.Float64() < p {
			e = append(e, k)
		}
	}
	return gJ{N: n, E: e}
}

func injSeqs(n, maxLen int) [][]int {
	var out [][]int
	var rec func(p []int, used int)
	rec = func(p []int, used int) {
		out = append(out, cp(p))
		if len(p) == maxLen {
			return
		}
		for v := 0; v < n; v++ {
			if used&(1<<uint(v)) == 0 {
				rec(append(p, v), used|1<<uint(v))
			}
		}
	}
	rec([]int{}, 0)
	return out
}

func consGrid(c *Ctx) []consIn {
	big := c.Thorough()
	r := rand.New(rand.NewSource(c.Seed))
	var g []consIn
	add := func(in consIn) { g = append(g, in) }
	maxN := 8
	if big {
		maxN = 12
	}
	for n := 0; n <= maxN; n++ {
		for _, f := range []string{"Complete", "Path", "Cycle", "Star", "NewDenseNil", "NewSparseNil"} {
			add(consIn{Fam: f, P: []int{n}})
		}
	}
	for n := 0; n <= 5; n++ {
		add(consIn{Fam: "Friendship", P: []int{n}})
		add(consIn{Fam: "FlowerSnark", P: []int{n}})
		add(consIn{Fam: "FoldedHypercube", P: []int{n}})
		if n <= 4 {
			add(consIn{Fam: "Hypercube", P: []int{n}})
		}
	}
	add(consIn{Fam: "Hypercube", P: []int{-1}})
	for _, nums := range tuples(0, 3, 3) {
		add(consIn{Fam: "CompletePartite", M: nums})
	}
	for a := 0; a <= 3; a++ {
		for b := 0; b <= 3; b++ {
			add(consIn{Fam: "Rook", P: []int{a, b}})
		}
	}
	for n := 0; n <= 6; n++ {
		for k := 0; k <= n; k++ {
			add(consIn{Fam: "Kneser", P: []int{n, k}})
			if n <= 5 {
				add(consIn{Fam: "BipartiteKneser", P: []int{n, k}})
			}
		}
	}
	for n := 0; n <= 8; n++ {
		ds := []int{-n - 1, -2, -1, 0, 1, 2, 3, n, n + 1}
		add(consIn{Fam: "Circulant", P: []int{n}})
		for _, a := range ds {
			add(consIn{Fam: "Circulant", P: []int{n}, M: []int{a}})
			for _, b := range ds {
				if r.Intn(3) == 0 || big {
					add(consIn{Fam: "Circulant", P: []int{n}, M: []int{a, b}})
				}
			}
		}
	}
	for n := 0; n <= 4; n++ {
		for m := 0; m <= 4; m++ {
			add(consIn{Fam: "CirculantBipartite", P: []int{n, m}})
			if m == 0 {
				continue // "mod 0" has no meaning: outside the definition
			}
			for _, a := range []int{-m - 1, -1, 0, 1, 2, m, m + 1} {
				add(consIn{Fam: "CirculantBipartite", P: []int{n, m}, M: []int{a}})
				add(consIn{Fam: "CirculantBipartite", P: []int{n, m}, M: []int{a, 1}})
			}
		}
	}
	for n := 0; n <= 7; n++ {
		for k := -1; k <= 3; k++ {
			add(consIn{Fam: "GeneralisedPetersen", P: []int{n, k}})
		}
	}
	small := 4
	if big {
		small = 5
	}
	for n := 0; n <= small; n++ {
		for _, gj := range allGraphsJ(n) {
			if n == 5 && r.Intn(8) != 0 {
				continue
			}
			bytes01 := make([]int, n*(n-1)/2)
			for _, rk := range gj.E {
				bytes01[rk] = 1
			}
			add(consIn{Fam: "NewDense", P: []int{n}, M: bytes01})
			add(consIn{Fam: "NewSparse", G: gj})
			add(consIn{Fam: "MulticodeDecodeOf", G: gj})
			add(consIn{Fam: "Graph6DecodeOf", G: gj})
			add(consIn{Fam: "Sparse6DecodeOf", G: gj})
			for _, rep := range []string{"dense", "sparse"} {
				add(consIn{Fam: "ComplementDense", G: gj, Rep: rep})
				add(consIn{Fam: "ComplementView", G: gj, Rep: rep})
				add(consIn{Fam: "LineGraphDense", G: gj, Rep: rep})
				for i := 0; i < n; i++ {
					for j := 0; j < n; j++ {
						if i != j {
							add(consIn{Fam: "SplitEdge", P: []int{i, j}, G: gj, Rep: rep})
						}
						add(consIn{Fam: "Contract", P: []int{i, j}, G: gj, Rep: rep})
					}
				}
				if n <= 4 {
					for _, V := range injSeqs(n, n) {
						add(consIn{Fam: "InducedView", M: V, G: gj, Rep: rep})
					}
				}
			}
		}
	}
	add(consIn{Fam: "SplitEdge", P: []int{1, 1}, G: gJ{N: 3, E: []int{0}}, Rep: "dense"})
	for i := 0; i < 60; i++ {
		n := 5 + r.Intn(6)
		gj := randGraphJ(r, n, []float64{0.2, 0.5, 0.8}[i%3])
		bytes := make([]int, n*(n-1)/2)
		for _, rk := range gj.E {
			bytes[rk] = []int{1, 1, 1, 2, 255}[r.Intn(5)]
		}
		add(consIn{Fam: "NewDense", P: []int{n}, M: bytes})
		add(consIn{Fam: "NewSparse", G: gj})
		rep := []string{"dense", "sparse"}[i%2]
		add(consIn{Fam: "ComplementDense", G: gj, Rep: rep})
		add(consIn{Fam: "ComplementView", G: gj, Rep: rep})
		add(consIn{Fam: "LineGraphDense", G: gj, Rep: rep})
		add(consIn{Fam: "InducedView", M: r.Perm(n)[:r.Intn(n+1)], G: gj, Rep: rep})
		a, b := r.Intn(n), r.Intn(n)
		add(consIn{Fam: "Contract", P: []int{a, b}, G: gj, Rep: rep})
		if a != b {
			add(consIn{Fam: "SplitEdge", P: []int{a, b}, G: gj, Rep: rep})
			// chains on one graph object (a transformation leaves the representation in a state the next one starts from)
			if n >= 3 {
				c, d := r.Intn(n-1), r.Intn(n-1) // vertices of the contracted graph
				if c != d {
					add(consIn{Fam: "ContractSplit", P: []int{a, b, c, d}, G: gj, Rep: rep})
				}
				e, f := r.Intn(n+1), r.Intn(n+1) // vertices of the split graph
				if e != f {
					add(consIn{Fam: "SplitContract", P: []int{a, b, e, f}, G: gj, Rep: rep})
				}
			}
		}
		add(consIn{Fam: "MulticodeDecodeOf", G: gj})
		if gj.N >= 2 && gj.N <= 62 {
			add(consIn{Fam: "Sparse6DecodeShuffled", G: gj, M: sparse6Shuffled(r, gj)})
		}
		add(consIn{Fam: "Graph6DecodeOf", G: gj})
		add(consIn{Fam: "Sparse6DecodeOf", G: gj})
	}
	// decoders and copies on larger graphs (index arithmetic that depends on the size)
	for _, n := range []int{16, 17, 18, 19, 33, 64, 65, 100, 200, 255} {
		for _, p := range []float64{0.08, 0.6} {
			gj := randGraphJ(r, n, p)
			add(consIn{Fam: "MulticodeDecodeOf", G: gj})
			add(consIn{Fam: "Graph6DecodeOf", G: gj})
			add(consIn{Fam: "Sparse6DecodeOf", G: gj})
			add(consIn{Fam: "NewSparse", G: gj})
			if n <= 65 {
				add(consIn{Fam: "ComplementDense", G: gj, Rep: "sparse"})
			}
		}
	}
	add(consIn{Fam: "NewDense", P: []int{3}, M: []int{1, 0}}) // wrong length: documented refusal
	for _, n := range []int{0, 1, 5, 9} {
		for _, pct := range []int{0, 30, 100} {
			for seed := 1; seed <= 3; seed++ {
				add(consIn{Fam: "RandomGraph", P: []int{n, pct, seed}})
			}
		}
	}
	for n := 0; n <= 9; n++ {
		for seed := 1; seed <= 4; seed++ {
			add(consIn{Fam: "RandomTree", P: []int{n, seed}})
		}
	}
	// every Pruefer code for n <= 5 (6 thorough)
	pn := 5
	if big {
		pn = 6
	}
	for n := 2; n <= pn; n++ {
		for _, code := range tuplesExact(n-2, n) {
			add(consIn{Fam: "PruferDecodeOf", M: code, G: pruferTree(code)})
		}
	}
	return g
}

// tuplesExact: all sequences of length l over 0..base-1
func tuplesExact(l, base int) [][]int {
	out := [][]int{{}}
	for i := 0; i < l; i++ {
		var cur [][]int
		for _, p := range out {
			for v := 0; v < base; v++ {
				cur = append(cur, append(cp(p), v))
			}
		}
		out = cur
	}
	return out
}

// pruferTree is the harness' own decoding of a Pruefer code, used only to tell the acceptor which tree is
// expected; the acceptor recomputes it with the specification's PruferDecode and would notice a disagreement.
func pruferTree(code []int) gJ {
	n := len(code) + 2
	deg := make([]int, n)
	for i := range deg {
		deg[i] = 1
	}
	for _, v := range code {
		deg[v]++
	}
	e := []int{}
	for _, v := range code {
		for j := 0; j < n; j++ {
			if deg[j] == 1 {
				e = append(e, obs.PairToRank(j, v))
				deg[j]--
				deg[v]--
				break
			}
		}
	}
	last := []int{}
	for j := 0; j < n; j++ {
		if deg[j] == 1 {
			last = append(last, j)
		}
	}
	e = append(e, obs.PairToRank(last[0], last[1]))
	sortInts(e)
	return gJ{N: n, E: e}
}

func sortInts(s []int) {
	for i := 1; i < len(s); i++ {
		for j := i; j > 0 && s[j] < s[j-1]; j-- {
			s[j], s[j-1] = s[j-1], s[j]
		}
	}
}

// ---- live views ----

type viewIn struct {
	Rep  string `json:"rep"`
	V    []int  `json:"V"`
	Hist []EAct `json:"hist"` // first action is Create
}

func (in viewIn) key() string { return "views:" + fmt.Sprint(in.V) + ":" + histKey(in.Rep, in.Hist) }

func runViews(w *tr.W, in viewIn) {
	hs := map[int]graph.EditableGraph{}
	var comp, cc, ind graph.Graph
	for k, a := range in.Hist {
		res := applyE(in.Rep, hs, a)
		if k == 0 && res == "ok" {
			res = obs.Safe(func() {
				comp = graph.Complement(hs[1])
				cc = graph.Complement(graph.Complement(hs[1]))
				ind = graph.InducedSubgraph(hs[1], cp(in.V))
			})
		}
		views := []tr.E{}
		if res == "ok" {
			for _, v := range []struct {
				kind string
				g    graph.Graph
			}{{"complement", comp}, {"cc", cc}, {"induced", ind}} {
				o, r := obsAny(v.g)
				views = append(views, tr.E{"kind": v.kind, "V": in.V, "o": o, "res": r})
			}
		}
		w.Emit(tr.E{"ev": "ViewOp", "a": a.ev(), "res": res, "views": views})
		if res != "ok" {
			return
		}
	}
}

func viewGrid(c *Ctx) []viewIn {
	r := rand.New(rand.NewSource(c.Seed + 3))
	nv := 60
	if c.Thorough() {
		nv = 600
	}
	var out []viewIn
	for i := 0; i < nv; i++ {
		n := 1 + r.Intn(6)
		gj := randGraphJ(r, n, 0.5)
		V := r.Perm(n)[:r.Intn(n+1)]
		hist := []EAct{{Op: "Create", H: 1, N: n, E: gj.E}}
		cur := n
		for k := 0; k < 12; k++ {
			switch r.Intn(4) {
			case 0:
				hist = append(hist, EAct{Op: "AddEdge", H: 1, I: r.Intn(cur), J: r.Intn(cur)})
			case 1:
				hist = append(hist, EAct{Op: "RemoveEdge", H: 1, I: r.Intn(cur), J: r.Intn(cur)})
			case 2:
				if cur < 8 {
					hist = append(hist, EAct{Op: "AddVertex", H: 1, Nb: r.Perm(cur)[:r.Intn(cur+1)]})
					cur++
				}
			default:
				// removing the last vertex keeps every remaining index stable; only if it is not in V
				inV := false
				for _, v := range V {
					if v == cur-1 {
						inV = true
					}
				}
				if cur > 1 && !inV {
					hist = append(hist, EAct{Op: "RemoveVertex", H: 1, Vx: cur - 1})
					cur--
				}
			}
		}
		out = append(out, viewIn{Rep: []string{"dense", "sparse"}[i%2], V: V, Hist: hist})
	}
	return out
}

func driveC06(c *Ctx) {
	set := tr.NewSet(c.Out, "trace", c.Shards)
	meta := map[string]interface{}{}
	finish := func() {
		meta["segments"] = set.Segs
		meta["events"] = set.Close()
		meta["timed_out"] = timedOut
		tr.WriteJSON(c.Out+"/meta.json", meta)
	}
	finishHook = finish
	if c.In != "" {
		for _, raw := range readInputs(c.In) {
			var probe struct {
				Hist []EAct `json:"hist"`
			}
			json.Unmarshal(raw, &probe)
			if probe.Hist != nil {
				var in viewIn
				json.Unmarshal(raw, &in)
				runViews(set.Begin(in.key(), tr.E{"input": in}), in)
				continue
			}
			var in consIn
			if err := json.Unmarshal(raw, &in); err != nil {
				panic(err)
			}
			runConstruct(set.Begin(in.key(), tr.E{"input": in}), in)
		}
		finish()
		return
	}
	fams := map[string]int{}
	for _, in := range consGrid(c) {
		fams[in.Fam]++
		runConstruct(set.Begin(in.key(), tr.E{"input": in}), in)
	}
	nv := 0
	for _, in := range viewGrid(c) {
		runViews(set.Begin(in.key(), tr.E{"input": in}), in)
		nv++
	}
	meta["calls_per_family"] = fams
	meta["view_histories"] = nv
	finish()
}
