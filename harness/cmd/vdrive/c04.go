package main

// C04: Save / Load of search iterators.
//  A: every transition of SaveLoad.tla's state graph (3 iterators, 2 blobs, output lengths 0,1,2,4)
//     replayed from a shortest history on real iterators of a configuration with that many outputs.
//  B: for every configuration and EVERY save position k: save, keep advancing the original, load,
//     drain; plus save/load chains; logged for SaveLoadTrace.tla.

import (
	"bytes"
	"encoding/json"
	"fmt"
	"io"
	"math/rand"
	"testing/iotest"

	"github.com/Tom-Johnston/mamba/graph"
	"github.com/Tom-Johnston/mamba/graph/search"

	"verifharness/internal/obs"
	"verifharness/internal/tr"
)

func init() { drivers["C04"] = driveC04 }

type slCfg struct {
	N     int    `json:"n"`
	A     int    `json:"a"`
	M     int    `json:"m"`
	Pred  string `json:"pred"`
	Place string `json:"place"`
}

func (c slCfg) String() string {
	return fmt.Sprintf("n=%d,a=%d,m=%d,%s/%s", c.N, c.A, c.M, c.Pred, c.Place)
}

type slOp struct {
	Op string `json:"op"` // Next | Save | Load | Drain | Adv | Take
	I  int    `json:"i"`
	B  int    `json:"b"`
	T  int    `json:"t"` // Adv / Take: number of Next calls
}

func (o slOp) String() string {
	switch o.Op {
	case "Next", "Drain":
		return fmt.Sprintf("%s(%d)", o.Op, o.I)
	case "Adv", "Take":
		return fmt.Sprintf("%s(%d,%d)", o.Op, o.I, o.T)
	case "Save":
		return fmt.Sprintf("Save(%d->b%d)", o.I, o.B)
	}
	return fmt.Sprintf("Load(b%d->%d)", o.B, o.I)
}

type slIn struct {
	Cfg    slCfg  `json:"cfg"`
	Ops    []slOp `json:"ops"`
	Prefix int    `json:"prefix"` // > 0: the reference is only the first Prefix outputs (large configurations)
	Stream bool   `json:"stream"` // every Save is appended to ONE log and the Loads read the saves back from it one after the other
}

func (in slIn) key() string {
	s := ""
	for i, o := range in.Ops {
		if i > 0 {
			s += ";"
		}
		s += o.String()
	}
	if len(s) > 300 {
		s = fmt.Sprintf("%s...(%d ops)", s[:260], len(in.Ops))
	}
	if in.Stream {
		return fmt.Sprintf("SaveLoad[%s;one log](%s)", in.Cfg, s)
	}
	return fmt.Sprintf("SaveLoad[%s](%s)", in.Cfg, s)
}

func rejectAll(g *graph.DenseGraph) bool { return true }

func predFuncs(c slCfg) (pre, post func(*graph.DenseGraph) bool) {
	pre, post = never, never
	if c.Pred == "none" || c.Pred == "" {
		return
	}
	var rej func(*graph.DenseGraph) bool
	if c.Pred == "rejectall" {
		rej = rejectAll
	} else {
		p := hereditary[c.Pred]
		rej = func(g *graph.DenseGraph) bool { return !p(g) }
	}
	if c.Place == "pre" {
		pre = rej
	} else {
		post = rej
	}
	return
}

func newIter(c slCfg) *search.GraphIterator {
	pre, post := predFuncs(c)
	return search.WithPruning(c.N, c.A, c.M, pre, post)
}

func reference(c slCfg) (out [][]int, res string) { return referenceN(c, 0) }

// referenceN: the first limit outputs (all of them for limit = 0) of an uninterrupted iterator.
func referenceN(c slCfg, limit int) (out [][]int, res string) {
	out = [][]int{}
	res = obs.Safe(func() {
		it := newIter(c)
		for (limit == 0 || len(out) < limit) && it.Next() {
			out = append(out, ranksOf(it.Value()))
			if len(out) > 400000 {
				panic("runaway iterator")
			}
		}
	})
	return
}

// session executes the ops on real iterators; emit receives one event per op.
func session(in slIn, ref [][]int, emit func(tr.E)) {
	its := map[int]*search.GraphIterator{1: newIter(in.Cfg)}
	blobs := map[int][]byte{}
	pre, post := predFuncs(in.Cfg)
	var buf, log bytes.Buffer // buf: ONE writer reused (after Reset) by every Save of the session; log: the append-only stream of Stream sessions
	for _, o := range in.Ops {
		switch o.Op {
		case "Next":
			var ok bool
			val := []int{}
			res := obs.Safe(func() {
				ok = its[o.I].Next()
				if ok {
					val = ranksOf(its[o.I].Value())
				}
			})
			emit(tr.E{"ev": "Next", "i": o.I, "ok": ok, "val": val, "res": res})
			if res != "ok" {
				return
			}
		case "Save":
			var res string
			if in.Stream {
				before := log.Len()
				res = obs.Safe(func() { its[o.I].Save(&log) })
				blobs[o.B] = append([]byte{}, log.Bytes()[before:]...)
			} else {
				buf.Reset()
				res = obs.Safe(func() { its[o.I].Save(&buf) })
				blobs[o.B] = append([]byte{}, buf.Bytes()...)
			}
			emit(tr.E{"ev": "Save", "i": o.I, "b": o.B, "res": res, "bytes": len(blobs[o.B])})
			if res != "ok" {
				return
			}
		case "Load":
			res := obs.Safe(func() {
				if in.Stream { // the saves are read back in the order they were written, from the log itself
					its[o.I] = search.Load(&log, pre, post)
				} else {
					// any io.Reader will do: readers that deliver the bytes in pieces (one byte, half of what is asked for) or the last
					// bytes together with io.EOF are as good as one that hands everything over at once
					var rd io.Reader = bytes.NewReader(blobs[o.B])
					switch (o.B + len(blobs[o.B])) % 4 {
					case 1:
						rd = iotest.OneByteReader(rd)
					case 2:
						rd = iotest.HalfReader(rd)
					case 3:
						rd = iotest.DataErrReader(rd)
					}
					its[o.I] = search.Load(rd, pre, post)
				}
			})
			emit(tr.E{"ev": "Load", "i": o.I, "b": o.B, "res": res})
			if res != "ok" {
				return
			}
		case "Adv", "Take":
			oks := 0
			last := []int{}
			vals := [][]int{}
			res := obs.Safe(func() {
				for k := 0; k < o.T; k++ {
					if !its[o.I].Next() {
						break
					}
					oks++
					if o.Op == "Take" || k == o.T-1 {
						last = ranksOf(its[o.I].Value())
					}
					if o.Op == "Take" {
						vals = append(vals, last)
					}
				}
				if oks > 0 && len(last) == 0 {
					last = ranksOf(its[o.I].Value())
				}
			})
			emit(tr.E{"ev": o.Op, "i": o.I, "t": o.T, "oks": oks, "last": last, "vals": vals, "res": res})
			if res != "ok" {
				return
			}
		case "Drain":
			vals := [][]int{}
			res := obs.Safe(func() {
				for its[o.I].Next() {
					vals = append(vals, ranksOf(its[o.I].Value()))
					if len(vals) > len(ref)+5 {
						panic("more graphs than the uninterrupted iterator produced")
					}
				}
				if its[o.I].Next() {
					panic("Next returned true again after false")
				}
			})
			emit(tr.E{"ev": "Drain", "i": o.I, "vals": vals, "res": res})
			if res != "ok" {
				return
			}
		}
	}
}

func runSession(w *tr.W, in slIn) {
	ref, res := referenceN(in.Cfg, in.Prefix)
	w.Emit(tr.E{"ev": "Ref", "cfg": in.Cfg, "out": ref, "res": res})
	if res != "ok" {
		return
	}
	session(in, ref, func(e tr.E) { w.Emit(e) })
}

// ---- A: replay of the TLC dump ----
type slIt struct {
	Live bool `json:"live"`
	Pos  int  `json:"pos"`
	Exh  bool `json:"exh"`
}
type slState struct {
	It []slIt `json:"it"`
}
type slRes struct {
	Ok  bool `json:"ok"`
	Idx int  `json:"idx"`
}

func replayC04(c *Ctx, cfg slCfg) (checked, steps int, mism []Mismatch) {
	g := loadGen(c.Gen)
	acts := make([]slOp, len(g.Trans))
	ress := make([]slRes, len(g.Trans))
	for i, t := range g.Trans {
		json.Unmarshal(t.A, &acts[i])
		json.Unmarshal(t.R, &ress[i])
	}
	ref, r := reference(cfg)
	if r != "ok" {
		return 0, 0, []Mismatch{{Key: "reference " + cfg.String(), Why: r, Input: slIn{Cfg: cfg}}}
	}
	seen := map[string]bool{}
	for i := range g.Trans {
		idx := g.History(i)
		ops := make([]slOp, len(idx))
		want := make([]slRes, len(idx))
		for k, j := range idx {
			ops[k], want[k] = acts[j], ress[j]
		}
		in := slIn{Cfg: cfg, Ops: ops}
		checked++
		k := 0
		why := ""
		session(in, ref, func(e tr.E) {
			steps++
			if why != "" {
				return
			}
			if e["res"] != "ok" {
				why = fmt.Sprint(e["res"])
			} else if e["ev"] == "Next" {
				ok := e["ok"].(bool)
				switch {
				case ok != want[k].Ok:
					why = fmt.Sprintf("Next ok=%v, specification %v", ok, want[k].Ok)
				case ok && want[k].Idx > len(ref):
					why = "specification index beyond the reference (harness)"
				case ok && !eqS(e["val"].([]int), ref[want[k].Idx-1]):
					why = fmt.Sprintf("Next delivered %v, the uninterrupted iterator delivers %v at position %d", e["val"], ref[want[k].Idx-1], want[k].Idx)
				}
			}
			if why != "" {
				in.Ops = ops[:k+1]
			}
			k++
		})
		if why != "" {
			key := in.key()
			if !seen[key] {
				seen[key] = true
				mism = append(mism, Mismatch{Key: key, Why: why, Input: in})
			}
		}
	}
	return
}

func cfgGrid(c *Ctx) []slCfg {
	maxN := 6
	if c.Thorough() {
		maxN = 7
	}
	var out []slCfg
	for n := 0; n <= maxN; n++ {
		out = append(out, slCfg{N: n, A: 0, M: 1, Pred: "none", Place: "none"})
		if n >= 3 {
			for m := 2; m <= 3; m++ {
				for a := 0; a < m; a++ {
					out = append(out, slCfg{N: n, A: a, M: m, Pred: "none", Place: "none"})
				}
			}
			for i, p := range []string{"trianglefree", "forest", "maxdeg2", "bipartite"} {
				out = append(out, slCfg{N: n, A: 0, M: 1, Pred: p, Place: []string{"pre", "post"}[i%2]})
				out = append(out, slCfg{N: n, A: 1, M: 2, Pred: p, Place: []string{"post", "pre"}[i%2]})
			}
		}
	}
	out = append(out, slCfg{N: 3, A: 0, M: 1, Pred: "rejectall", Place: "pre"}, slCfg{N: 4, A: 0, M: 1, Pred: "rejectall", Place: "post"})
	return out
}

func driveC04(c *Ctx) {
	set := tr.NewSet(c.Out, "trace", c.Shards)
	meta := map[string]interface{}{}
	finish := func() {
		meta["segments"] = set.Segs
		meta["events"] = set.Close()
		tr.WriteJSON(c.Out+"/meta.json", meta)
	}
	if c.In != "" {
		for _, raw := range readInputs(c.In) {
			var in slIn
			if err := json.Unmarshal(raw, &in); err != nil {
				panic(err)
			}
			runSession(set.Begin(in.key(), tr.E{"input": in}), in)
		}
		finish()
		return
	}
	if c.Gen != "" {
		// the generator file name encodes the output length L: pick a real configuration with exactly L outputs
		var L int
		fmt.Sscanf(c.Gen[len(c.Gen)-5:], "%d.out", &L)
		cfg := map[int]slCfg{0: {N: 3, M: 1, Pred: "rejectall", Place: "pre"}, 1: {N: 1, M: 1, Pred: "none"}, 2: {N: 2, M: 1, Pred: "none"}, 4: {N: 3, M: 1, Pred: "none"}}[L]
		ref, _ := reference(cfg)
		if len(ref) != L {
			panic(fmt.Sprintf("configuration %v has %d outputs, the generator was run for L=%d", cfg, len(ref), L))
		}
		checked, steps, mism := replayC04(c, cfg)
		meta["A_transitions_replayed"] = checked
		meta["A_steps"] = steps
		meta["A_mismatches"] = len(mism)
		tr.WriteJSON(c.Out+"/replayA.json", capMismatches(mism, 25))
		finish()
		return
	}
	r := rand.New(rand.NewSource(c.Seed))
	sessions, positions := 0, 0
	for _, cfg := range cfgGrid(c) {
		ref, _ := reference(cfg)
		L := len(ref)
		step := 1
		if L > 200 {
			step = L / 100 // larger outputs: about 100 positions incl. both ends
		}
		for k := 0; k <= L; k += step {
			// advance to position k, save, keep advancing the original to the end, load, drain the loaded one
			ops := []slOp{}
			for i := 0; i < k; i++ {
				ops = append(ops, slOp{Op: "Next", I: 1})
			}
			ops = append(ops, slOp{Op: "Save", I: 1, B: 1}, slOp{Op: "Drain", I: 1}, slOp{Op: "Load", I: 2, B: 1})
			// interleave: a few steps on the loaded iterator, save it again, load that into a third one, drain both
			adv := r.Intn(4)
			for i := 0; i < adv; i++ {
				ops = append(ops, slOp{Op: "Next", I: 2})
			}
			ops = append(ops, slOp{Op: "Save", I: 2, B: 2}, slOp{Op: "Load", I: 3, B: 2}, slOp{Op: "Next", I: 3}, slOp{Op: "Drain", I: 2}, slOp{Op: "Drain", I: 3},
				slOp{Op: "Load", I: 4, B: 1}, slOp{Op: "Drain", I: 4}) // the first blob is still good after everything else
			in := slIn{Cfg: cfg, Ops: ops}
			runSession(set.Begin(in.key(), tr.E{"input": in}), in)
			sessions++
			positions++
		}
		// one log: two or three saves of the same iterator appended to one stream, then loaded one after the other from that stream
		for t := 0; t < 3 && L > 0; t++ {
			k1 := r.Intn(L + 1)
			k2 := r.Intn(3)
			if k2 > L-k1 { // Adv is specified for advances that stay inside the output
				k2 = L - k1
			}
			ops := []slOp{{Op: "Adv", I: 1, T: k1}, {Op: "Save", I: 1, B: 1}, {Op: "Adv", I: 1, T: k2}, {Op: "Save", I: 1, B: 2}, {Op: "Save", I: 1, B: 3},
				{Op: "Load", I: 2, B: 1}, {Op: "Load", I: 3, B: 2}, {Op: "Drain", I: 3}, {Op: "Load", I: 4, B: 3}, {Op: "Drain", I: 2}, {Op: "Drain", I: 4}, {Op: "Drain", I: 1}}
			in := slIn{Cfg: cfg, Ops: ops, Stream: true}
			runSession(set.Begin(in.key(), tr.E{"input": in}), in)
			sessions++
		}
		// after exhaustion: save an exhausted iterator
		in := slIn{Cfg: cfg, Ops: []slOp{{Op: "Drain", I: 1}, {Op: "Save", I: 1, B: 1}, {Op: "Load", I: 2, B: 1}, {Op: "Next", I: 2}, {Op: "Next", I: 1}, {Op: "Drain", I: 2}}}
		runSession(set.Begin(in.key(), tr.E{"input": in}), in)
		sessions++
		// random chains
		for t := 0; t < 3; t++ {
			ops := []slOp{}
			live := map[int]bool{1: true}
			full := map[int]bool{}
			pick := func(m map[int]bool) int {
				ks := []int{}
				for k := range m {
					ks = append(ks, k)
				}
				sortInts(ks)
				return ks[r.Intn(len(ks))]
			}
			for len(ops) < 25 {
				switch x := r.Intn(10); {
				case x < 5:
					ops = append(ops, slOp{Op: "Next", I: pick(live)})
				case x < 7:
					b := 1 + r.Intn(4)
					ops = append(ops, slOp{Op: "Save", I: pick(live), B: b})
					full[b] = true
				default:
					if len(full) > 0 {
						i := 1 + r.Intn(6)
						ops = append(ops, slOp{Op: "Load", I: i, B: pick(full)})
						live[i] = true
					}
				}
			}
			for i := 1; i <= 6; i++ {
				if live[i] {
					ops = append(ops, slOp{Op: "Drain", I: i})
				}
			}
			in := slIn{Cfg: cfg, Ops: ops}
			runSession(set.Begin(in.key(), tr.E{"input": in}), in)
			sessions++
		}
	}
	// large configurations: only a prefix of the output is examined, with a save every few positions in one pass
	type bigCfg struct {
		n, prefix, step int
	}
	bigs := []bigCfg{{8, 2500, 3}, {9, 4000, 4}, {10, 9000, 4}}
	if c.Thorough() {
		bigs = []bigCfg{{8, 12346, 6}, {9, 14000, 6}, {10, 14000, 6}, {11, 12000, 5}}
	}
	for _, bc := range bigs {
		cfg := slCfg{N: bc.n, A: 0, M: 1, Pred: "none", Place: "none"}
		ops := []slOp{}
		nb := 0
		for pos := 0; pos+bc.step+45 < bc.prefix && nb < 2400; pos += bc.step {
			nb++
			ops = append(ops, slOp{Op: "Save", I: 1, B: nb}, slOp{Op: "Adv", I: 1, T: bc.step})
			positions++
		}
		for b := 1; b <= nb; b++ {
			ops = append(ops, slOp{Op: "Load", I: 2, B: b}, slOp{Op: "Take", I: 2, T: 12})
			if b%50 == 0 { // a chain: save the loaded iterator again and load that
				ops = append(ops, slOp{Op: "Save", I: 2, B: 2450}, slOp{Op: "Load", I: 3, B: 2450}, slOp{Op: "Take", I: 3, T: 20})
			}
		}
		in := slIn{Cfg: cfg, Ops: ops, Prefix: bc.prefix}
		runSession(set.Begin(in.key(), tr.E{"input": in}), in)
		sessions++
	}
	meta["sessions"] = sessions
	meta["save_positions"] = positions
	meta["configurations"] = len(cfgGrid(c))
	finish()
}
