package main

// C05: editable graphs under every edit history.
//  A (spec -> code): every transition of EditGraph.tla's state graph (dumped by TLC) is
//    executed from a genuine shortest history on *DenseGraph and *SparseGraph and all live
//    handles are observed after every action and compared with the specification's state.
//  B (code -> spec): seeded random histories with larger graphs are executed and logged for
//    EditGraphTrace.tla.

import (
	"bufio"
	"encoding/json"
	"fmt"
	"math/rand"
	"os"
	"sort"
	"strconv"
	"strings"

	"github.com/Tom-Johnston/mamba/graph"
	"github.com/Tom-Johnston/mamba/sortints"

	"verifharness/internal/obs"
	"verifharness/internal/tr"
)

func init() { drivers["C05"] = driveC05 }

// EAct is one action of EditGraph.tla.
type EAct struct {
	Op string `json:"op"`
	H  int    `json:"h"`
	H2 int    `json:"h2,omitempty"`
	N  int    `json:"n,omitempty"`
	E  []int  `json:"e,omitempty"`
	Nb []int  `json:"nb,omitempty"`
	V  []int  `json:"V,omitempty"`
	Vx int    `json:"v,omitempty"`
	I  int    `json:"i,omitempty"`
	J  int    `json:"j,omitempty"`
}

func (a EAct) String() string {
	switch a.Op {
	case "Create":
		return fmt.Sprintf("Create(h%d,n=%d,e=%v)", a.H, a.N, a.E)
	case "AddVertex":
		return fmt.Sprintf("AddVertex(h%d,%v)", a.H, a.Nb)
	case "RemoveVertex":
		return fmt.Sprintf("RemoveVertex(h%d,%d)", a.H, a.Vx)
	case "AddEdge", "RemoveEdge":
		return fmt.Sprintf("%s(h%d,%d,%d)", a.Op, a.H, a.I, a.J)
	case "Copy":
		return fmt.Sprintf("Copy(h%d->h%d)", a.H, a.H2)
	case "Induced":
		return fmt.Sprintf("Induced(h%d->h%d,%v)", a.H, a.H2, a.V)
	}
	return a.Op
}

// full JSON form (no omitempty, so that TLC always finds the fields it reads)
func (a EAct) ev() tr.E {
	nz := func(s []int) []int {
		if s == nil {
			return []int{}
		}
		return s
	}
	return tr.E{"op": a.Op, "h": a.H, "h2": a.H2, "n": a.N, "e": nz(a.E), "nb": nz(a.Nb), "V": nz(a.V), "v": a.Vx, "i": a.I, "j": a.J}
}

func histKey(rep string, h []EAct) string {
	s := make([]string, len(h))
	for i := range h {
		s[i] = h[i].String()
	}
	return rep + ":" + strings.Join(s, ";")
}

func newGraph(rep string, n int, ranks []int) graph.EditableGraph {
	if rep == "dense" {
		edges := make([]byte, n*(n-1)/2)
		for _, r := range ranks {
			edges[r] = []byte{1, 2, 255, 1}[r%4] // NewDense: any non-zero byte is an edge (e.g. the coloured arrays ChromaticIndex returns)
		}
		return graph.NewDense(n, edges)
	}
	nb := make([]sortints.SortedInts, n)
	for i := range nb {
		nb[i] = sortints.SortedInts{}
	}
	for _, r := range ranks {
		i, j := obs.RankToPair(r)
		nb[i] = append(nb[i], j)
		nb[j] = append(nb[j], i)
	}
	for i := range nb {
		sort.Ints(nb[i])
	}
	return graph.NewSparse(n, nb)
}

// relabelled: the graph gj in representation rep with new vertex i = old pi[i]. InducedSubgraph writes 0/1 edge bytes, so a dense result
// is rebuilt through newGraph to carry the mixed non-zero bytes again (every function must treat any non-zero byte as an edge).
func relabelled(rep string, gj gJ, pi []int) graph.EditableGraph {
	h := graphOfJ(rep, gj).InducedSubgraph(pi)
	if rep == "dense" {
		return newGraph("dense", h.N(), ranksOf(h))
	}
	return h
}

// applyE executes one action on the handle table; returns "ok" or the panic.
func applyE(rep string, hs map[int]graph.EditableGraph, a EAct) string {
	return obs.Safe(func() {
		switch a.Op {
		case "Create":
			hs[a.H] = newGraph(rep, a.N, a.E)
		case "AddVertex":
			hs[a.H].AddVertex(append([]int{}, a.Nb...))
		case "RemoveVertex":
			hs[a.H].RemoveVertex(a.Vx)
		case "AddEdge":
			hs[a.H].AddEdge(a.I, a.J)
		case "RemoveEdge":
			hs[a.H].RemoveEdge(a.I, a.J)
		case "Copy":
			hs[a.H2] = hs[a.H].Copy()
		case "Induced":
			hs[a.H2] = hs[a.H].InducedSubgraph(append([]int{}, a.V...))
		default:
			panic("unknown op " + a.Op)
		}
	})
}

func observeAll(hs map[int]graph.EditableGraph) []tr.E {
	keys := []int{}
	for h := range hs {
		keys = append(keys, h)
	}
	sort.Ints(keys)
	out := []tr.E{}
	for _, h := range keys {
		o, res := obs.SafeOf(hs[h])
		out = append(out, tr.E{"h": h, "o": o, "res": res})
	}
	return out
}

// runHistoryB executes a history and logs it as one trace segment.
func runHistoryB(w *tr.W, rep string, hist []EAct) {
	hs := map[int]graph.EditableGraph{}
	for _, a := range hist {
		res := applyE(rep, hs, a)
		w.Emit(tr.E{"ev": "Op", "a": a.ev(), "res": res, "obs": observeAll(hs)})
		if res != "ok" {
			return
		}
	}
}

type gState struct {
	N int   `json:"n"`
	E []int `json:"e"`
}
type gTrans struct {
	F []gState `json:"f"`
	A EAct     `json:"a"`
	T []gState `json:"t"`
}

func stKey(s []gState) string { b, _ := json.Marshal(s); return string(b) }

// readGen parses the `<<"T", "json">>` lines TLC printed.
func readGenLines(path string, tag string, each func(js string)) int {
	f, err := os.Open(path)
	if err != nil {
		panic(err)
	}
	defer f.Close()
	sc := bufio.NewScanner(f)
	sc.Buffer(make([]byte, 1<<20), 1<<26)
	pre := `<<"` + tag + `", `
	n := 0
	for sc.Scan() {
		ln := sc.Text()
		if !strings.HasPrefix(ln, pre) || !strings.HasSuffix(ln, ">>") {
			continue
		}
		q := ln[len(pre) : len(ln)-2]
		js, err := strconv.Unquote(q)
		if err != nil {
			panic(fmt.Sprintf("cannot unquote generator line: %v", err))
		}
		each(js)
		n++
	}
	return n
}

type Mismatch struct {
	Key   string      `json:"key"`
	Why   string      `json:"why"`
	Input interface{} `json:"input"`
}

func replayC05(c *Ctx) (checked int, steps int, mism []Mismatch) {
	var ts []gTrans
	readGenLines(c.Gen, "T", func(js string) {
		var t gTrans
		if err := json.Unmarshal([]byte(js), &t); err != nil {
			panic(err)
		}
		ts = append(ts, t)
	})
	// shortest histories: BFS over the dumped state graph from the initial state
	out := map[string][]int{}
	for i, t := range ts {
		k := stKey(t.F)
		out[k] = append(out[k], i)
	}
	if len(ts) == 0 {
		return
	}
	var init []gState
	for range ts[0].F {
		init = append(init, gState{N: -1, E: []int{}})
	}
	parent := map[string]int{stKey(init): -1}
	queue := []string{stKey(init)}
	for len(queue) > 0 {
		s := queue[0]
		queue = queue[1:]
		for _, i := range out[s] {
			k := stKey(ts[i].T)
			if _, ok := parent[k]; !ok {
				parent[k] = i
				queue = append(queue, k)
			}
		}
	}
	pathTo := func(k string) []int {
		p := []int{}
		for parent[k] >= 0 {
			i := parent[k]
			p = append([]int{i}, p...)
			k = stKey(ts[i].F)
		}
		return p
	}
	seen := map[string]bool{}
	for _, rep := range []string{"dense", "sparse"} {
		for i, t := range ts {
			if _, ok := parent[stKey(t.F)]; !ok {
				panic("generator transition from an unreachable state")
			}
			idx := append(pathTo(stKey(t.F)), i)
			hist := make([]EAct, len(idx))
			for k, j := range idx {
				hist[k] = ts[j].A
			}
			hs := map[int]graph.EditableGraph{}
			checked++
			for k, j := range idx {
				res := applyE(rep, hs, ts[j].A)
				steps++
				why := ""
				if res != "ok" {
					why = res
				} else {
					for h, st := range ts[j].T {
						g, live := hs[h+1]
						if (st.N >= 0) != live {
							why = "liveness of handle"
							break
						}
						if !live {
							continue
						}
						o, r := obs.SafeOf(g)
						if r != "ok" {
							why = fmt.Sprintf("observer h%d %s", h+1, r)
							break
						}
						if d := obs.Diff(o, obs.Expected(st.N, st.E)); d != "" {
							why = fmt.Sprintf("h%d %s after %s", h+1, d, ts[j].A.String())
							break
						}
					}
				}
				if why != "" {
					key := histKey(rep, hist[:k+1])
					if !seen[key] {
						seen[key] = true
						mism = append(mism, Mismatch{Key: key, Why: why, Input: map[string]interface{}{"rep": rep, "hist": hist[:k+1]}})
					}
					break
				}
			}
		}
	}
	return
}

func randHistory(r *rand.Rand, maxN, length, handles int) []EAct {
	ns := map[int]int{} // handle -> n, tracked from the operations themselves
	hist := []EAct{}
	perm := func(n, k int) []int { return r.Perm(n)[:k] }
	n0 := r.Intn(maxN + 1)
	ranks := []int{}
	p := []float64{0.1, 0.3, 0.5, 0.8}[r.Intn(4)]
	for e := 0; e < n0*(n0-1)/2; e++ {
		if r.Float64() < p {
			ranks = append(ranks, e)
		}
	}
	hist = append(hist, EAct{Op: "Create", H: 1, N: n0, E: ranks})
	ns[1] = n0
	for len(hist) < length {
		live := []int{}
		for h := range ns {
			live = append(live, h)
		}
		sort.Ints(live)
		h := live[r.Intn(len(live))]
		n := ns[h]
		other := 1 + r.Intn(handles)
		for other == h {
			other = 1 + r.Intn(handles)
		}
		switch x := r.Intn(100); {
		case x < 18 && n < maxN:
			hist = append(hist, EAct{Op: "AddVertex", H: h, Nb: perm(n, r.Intn(n+1))})
			ns[h]++
		case x < 36 && n > 0:
			hist = append(hist, EAct{Op: "RemoveVertex", H: h, Vx: r.Intn(n)})
			ns[h]--
		case x < 60 && n > 0:
			hist = append(hist, EAct{Op: "AddEdge", H: h, I: r.Intn(n), J: r.Intn(n)})
		case x < 78 && n > 0:
			hist = append(hist, EAct{Op: "RemoveEdge", H: h, I: r.Intn(n), J: r.Intn(n)})
		case x < 86:
			hist = append(hist, EAct{Op: "Copy", H: h, H2: other})
			ns[other] = n
		case x < 100:
			k := r.Intn(n + 1)
			hist = append(hist, EAct{Op: "Induced", H: h, H2: other, V: perm(n, k)})
			ns[other] = k
		}
	}
	return hist
}

// randHistoryLarge: a short history on a graph with 33..70 vertices (sizes beyond fixed small buffers; vertices whose degree is many
// times the length of a short, unsorted InducedSubgraph list).
func randHistoryLarge(r *rand.Rand) []EAct {
	n := 33 + r.Intn(38)
	ranks := []int{}
	for e := 0; e < n*(n-1)/2; e++ {
		if r.Float64() < 0.5 {
			ranks = append(ranks, e)
		}
	}
	hist := []EAct{{Op: "Create", H: 1, N: n, E: ranks}}
	for len(hist) < 14 {
		switch r.Intn(7) {
		case 0, 1:
			hist = append(hist, EAct{Op: "RemoveVertex", H: 1, Vx: r.Intn(n)})
			n--
		case 2, 3:
			hist = append(hist, EAct{Op: "AddVertex", H: 1, Nb: r.Perm(n)[:r.Intn(6)]})
			n++
		case 4:
			hist = append(hist, EAct{Op: "AddEdge", H: 1, I: r.Intn(n), J: r.Intn(n)})
		case 5:
			hist = append(hist, EAct{Op: "RemoveEdge", H: 1, I: r.Intn(n), J: r.Intn(n)})
		default:
			hist = append(hist, EAct{Op: "Induced", H: 1, H2: 2, V: r.Perm(n)[:1+r.Intn(3)]})
		}
	}
	return hist
}

// randHistoryShrink: a dense graph on 12..22 vertices whose hub loses most of its neighbours edge by edge (storage that was sized for a
// large neighbourhood now holds a small one), then vertices below and above the survivors are removed and the graph grows again.
func randHistoryShrink(r *rand.Rand) []EAct {
	n := 12 + r.Intn(11)
	ranks := []int{}
	p := []float64{0.75, 0.9, 1}[r.Intn(3)]
	for e := 0; e < n*(n-1)/2; e++ {
		if r.Float64() < p {
			ranks = append(ranks, e)
		}
	}
	hist := []EAct{{Op: "Create", H: 1, N: n, E: ranks}}
	hub := r.Intn(n)
	for _, x := range r.Perm(n) {
		if x != hub && r.Intn(8) != 0 {
			hist = append(hist, EAct{Op: "RemoveEdge", H: 1, I: hub, J: x})
		}
	}
	for k := 0; k < 10; k++ {
		switch r.Intn(6) {
		case 0, 1, 2:
			hist = append(hist, EAct{Op: "RemoveVertex", H: 1, Vx: r.Intn(n)})
			n--
		case 3:
			hist = append(hist, EAct{Op: "AddEdge", H: 1, I: r.Intn(n), J: r.Intn(n)})
		case 4:
			hist = append(hist, EAct{Op: "AddVertex", H: 1, Nb: r.Perm(n)[:r.Intn(4)]})
			n++
		default:
			hist = append(hist, EAct{Op: "Copy", H: 1, H2: 2})
		}
	}
	return hist
}

func driveC05(c *Ctx) {
	set := tr.NewSet(c.Out, "trace", c.Shards)
	meta := map[string]interface{}{}
	if c.In != "" {
		for _, raw := range readInputs(c.In) {
			var in struct {
				Rep  string `json:"rep"`
				Hist []EAct `json:"hist"`
			}
			if err := json.Unmarshal(raw, &in); err != nil {
				panic(err)
			}
			w := set.Begin(histKey(in.Rep, in.Hist), tr.E{"rep": in.Rep, "input": in})
			runHistoryB(w, in.Rep, in.Hist)
		}
		meta["segments"] = set.Segs
		meta["events"] = set.Close()
		tr.WriteJSON(c.Out+"/meta.json", meta)
		return
	}
	if c.Gen != "" {
		checked, steps, mism := replayC05(c)
		meta["A_transitions_replayed"] = checked
		meta["A_steps"] = steps
		meta["A_mismatches"] = len(mism)
		mism = capMismatches(mism, 25)
		tr.WriteJSON(c.Out+"/replayA.json", mism)
	}
	nh, ln, maxN := 150, 40, 7
	if c.Thorough() {
		nh, ln, maxN = 1500, 80, 9
	}
	r := rand.New(rand.NewSource(c.Seed))
	nontrivial := 0
	var sample interface{}
	for i := 0; i < nh; i++ {
		hist := randHistory(r, maxN, ln, 3)
		nt := false
		for _, a := range hist {
			if a.Op == "RemoveVertex" || a.Op == "Induced" {
				nt = true
			}
		}
		if nt {
			nontrivial++
		}
		if i == 0 {
			sample = histKey("dense", hist[:8])
		}
		for _, rep := range []string{"dense", "sparse"} {
			w := set.Begin(histKey(rep, hist), tr.E{"rep": rep, "input": map[string]interface{}{"rep": rep, "hist": hist}})
			runHistoryB(w, rep, hist)
		}
	}
	nl := 12
	if c.Thorough() {
		nl = 60
	}
	for i := 0; i < nl; i++ {
		hist := randHistoryLarge(r)
		for _, rep := range []string{"dense", "sparse"} {
			w := set.Begin(histKey(rep, hist), tr.E{"rep": rep, "input": map[string]interface{}{"rep": rep, "hist": hist}})
			runHistoryB(w, rep, hist)
		}
	}
	ns := 10
	if c.Thorough() {
		ns = 100
	}
	for i := 0; i < ns; i++ {
		hist := randHistoryShrink(r)
		for _, rep := range []string{"dense", "sparse"} {
			w := set.Begin(histKey(rep, hist), tr.E{"rep": rep, "input": map[string]interface{}{"rep": rep, "hist": hist}})
			runHistoryB(w, rep, hist)
		}
	}
	meta["B_shrink_histories"] = ns
	meta["B_large_histories"] = nl
	meta["B_histories"] = nh
	meta["B_nontrivial_histories"] = nontrivial
	meta["B_sample"] = sample
	meta["segments"] = set.Segs
	meta["events"] = set.Close()
	tr.WriteJSON(c.Out+"/meta.json", meta)
}

func sortMismatches(mism []Mismatch) {
	sort.Slice(mism, func(i, j int) bool {
		if len(mism[i].Key) != len(mism[j].Key) {
			return len(mism[i].Key) < len(mism[j].Key)
		}
		return mism[i].Key < mism[j].Key
	})
}
