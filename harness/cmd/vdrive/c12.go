package main

// C12 / C13 / C14: the DAWG.  One trace segment = one Builder lifetime:
//   Add(w, err)* ; Finish(err, nwords, node table) ; Lookup(w, id, ok)* ; [Search...]* ; [Gob...]
// validated by DawgTrace.tla.  Spec -> code: every transition of DawgBuild.tla's state graph
// (every strictly increasing list over a small alphabet followed by any further Add) is replayed
// on a real Builder and compared with the specification's word count / minimal node count.

import (
	"bufio"
	"bytes"
	"encoding/gob"
	"encoding/json"
	"fmt"
	"math/rand"
	"os"
	"sort"
	"strings"

	"github.com/Tom-Johnston/mamba/dawg"

	"verifharness/internal/obs"
	"verifharness/internal/tr"
)

func init() {
	drivers["C12"] = func(c *Ctx) { driveDawg(c, "C12") }
	drivers["C13"] = func(c *Ctx) { driveDawg(c, "C13") }
	drivers["C14"] = func(c *Ctx) { driveDawg(c, "C14") }
}

// dawgIn is one builder lifetime: the Add calls (accepted or not), probes, searches, and whether to gob.
type dawgIn struct {
	Name     string       `json:"name"`
	Adds     [][]int      `json:"adds"`     // words as byte values
	NilEmpty bool         `json:"nilEmpty"` // pass the empty word as a nil slice
	Probes   [][]int      `json:"probes"`
	Table    bool         `json:"table"` // ask the acceptor to check the full node table (minimality, numWords)
	Searches [][]searchIn `json:"searches"`
	Gob      bool         `json:"gob"`
	Life     []lifeOp     `json:"life,omitempty"` // when present: a Builder life cycle (DawgLife.tla) instead of Adds
	// Prior: when present, the Builder first builds (and finishes) this set and is then re-initialised (Initialise); the logged lifetime
	// (Adds ... Finish) starts after that and must be the lifetime of a fresh Builder (DawgLife.tla: Initialise = fresh)
	Prior [][]int `json:"prior,omitempty"`
}

// lifeOp is one call on a Builder: "add" (W), "finish", "init" (Initialise).
type lifeOp struct {
	Op string `json:"op"`
	W  []int  `json:"w"`
}

func lifeKey(ops []lifeOp) string {
	parts := make([]string, len(ops))
	for i, o := range ops {
		if o.Op == "add" {
			parts[i] = "add" + wordsKey([][]int{o.W})
		} else {
			parts[i] = o.Op
		}
	}
	return strings.Join(parts, " ")
}

// runLife executes a life-cycle script on one Builder (the zero value). After every call each Dawg returned so far is observed again.
func runLife(w *tr.W, in dawgIn) {
	var b dawg.Builder
	var returned []*dawg.Dawg
	for _, o := range in.Life {
		switch o.Op {
		case "add":
			var err error
			res := obs.Safe(func() { err = b.Add(i2b(o.W)) })
			w.Emit(tr.E{"ev": "Add", "w": o.W, "err": err != nil, "res": res})
		case "init":
			w.Emit(tr.E{"ev": "Init", "res": obs.Safe(func() { b.Initialise() })})
		case "finish":
			var d *dawg.Dawg
			var err error
			res := obs.Safe(func() { d, err = b.Finish() })
			if res != "ok" || err != nil || d == nil {
				w.Emit(tr.E{"ev": "Finish", "err": err != nil || d == nil, "res": res, "nwords": 0, "nodes": []nodeJ{}, "table": true})
				break
			}
			nodes, nw := []nodeJ{}, 0
			res = obs.Safe(func() { nodes = nodeTable(d); nw = d.NumberOfWords() })
			w.Emit(tr.E{"ev": "Finish", "err": false, "res": res, "nwords": nw, "nnodes": len(nodes), "nodes": nodes, "table": true})
			for _, p := range in.Probes {
				var id int
				var found bool
				res := obs.Safe(func() { id, found = d.Lookup(i2b(p)) })
				w.Emit(tr.E{"ev": "Lookup", "w": p, "id": id, "ok": found, "res": res})
			}
			returned = append(returned, d)
			continue // the Dawg just returned was observed by the Finish event itself
		}
		for k, d := range returned {
			nodes, nw := []nodeJ{}, 0
			res := obs.Safe(func() { nodes = nodeTable(d); nw = d.NumberOfWords() })
			w.Emit(tr.E{"ev": "Old", "k": k + 1, "nwords": nw, "nodes": nodes, "res": res})
		}
	}
}

func b2i(b []byte) []int {
	out := make([]int, len(b))
	for i, v := range b {
		out[i] = int(v)
	}
	return out
}
func i2b(s []int) []byte {
	out := make([]byte, len(s))
	for i, v := range s {
		out[i] = byte(v)
	}
	return out
}

func wordsKey(ws [][]int) string {
	parts := make([]string, len(ws))
	for i, w := range ws {
		printable := true
		for _, v := range w {
			if v < 33 || v > 126 {
				printable = false
			}
		}
		if printable {
			parts[i] = `"` + string(i2b(w)) + `"`
		} else {
			parts[i] = fmt.Sprint(w)
		}
	}
	return strings.Join(parts, ",")
}

func (in dawgIn) key(prop string) string {
	k := wordsKey(in.Adds)
	if len(k) > 160 {
		k = fmt.Sprintf("%s...(%d adds)", k[:120], len(in.Adds))
	}
	s := fmt.Sprintf("dawg[%s](%s)", in.Name, k)
	if len(in.Life) > 0 {
		s = fmt.Sprintf("dawg[%s](%s)", in.Name, lifeKey(in.Life))
	}
	if in.NilEmpty {
		s += "+nilEmpty"
	}
	if len(in.Prior) > 0 {
		s += "+after(" + wordsKey(in.Prior) + ")"
	}
	return s
}

type nodeJ struct {
	ID       int   `json:"id"`
	Final    bool  `json:"final"`
	NumWords int   `json:"numWords"`
	Labels   []int `json:"labels"`
	Targets  []int `json:"targets"`
}

func nodeTable(d *dawg.Dawg) []nodeJ {
	out := []nodeJ{}
	for _, n := range dawg.VerifNodes(d) {
		t := make([]int, len(n.Targets))
		for i, v := range n.Targets {
			t[i] = int(v)
		}
		out = append(out, nodeJ{ID: int(n.ID), Final: n.Final, NumWords: n.NumWords, Labels: b2i(n.Labels), Targets: t})
	}
	return out
}

func mkWord(w []int, nilEmpty bool) []byte {
	if len(w) == 0 && nilEmpty {
		return nil
	}
	return i2b(w)
}

// buildDawg runs the Add calls on a real Builder; logs them if w != nil. Returns the finished dawg.
func buildDawg(w *tr.W, in dawgIn) (d *dawg.Dawg, ok bool) {
	var b dawg.Builder
	if len(in.Prior) > 0 {
		obs.Safe(func() {
			for _, wd := range in.Prior {
				b.Add(i2b(wd))
			}
			b.Finish()
			b.Initialise()
		})
	}
	for _, wd := range in.Adds {
		var err error
		res := obs.Safe(func() { err = b.Add(mkWord(wd, in.NilEmpty)) })
		if w != nil {
			w.Emit(tr.E{"ev": "Add", "w": wd, "err": err != nil, "res": res})
		}
		if res != "ok" {
			return nil, false
		}
	}
	var err error
	res := obs.Safe(func() { d, err = b.Finish() })
	if res != "ok" || err != nil || d == nil {
		if w != nil {
			w.Emit(tr.E{"ev": "Finish", "err": err != nil, "res": res, "nwords": 0, "nodes": []nodeJ{}, "table": in.Table})
		}
		return nil, false
	}
	if w != nil {
		nodes := []nodeJ{}
		nw := 0
		res = obs.Safe(func() { nodes = nodeTable(d); nw = d.NumberOfWords() })
		if !in.Table && len(nodes) > 400 {
			nodes = nodes[:1]
		}
		w.Emit(tr.E{"ev": "Finish", "err": false, "res": res, "nwords": nw, "nnodes": len(dawg.VerifNodes(d)), "nodes": nodes, "table": in.Table})
	}
	return d, true
}

func runDawg(w *tr.W, in dawgIn, prop string) {
	if len(in.Life) > 0 {
		runLife(w, in)
		return
	}
	d, ok := buildDawg(w, in)
	if !ok {
		return
	}
	for _, p := range in.Probes {
		var id int
		var found bool
		res := obs.Safe(func() { id, found = d.Lookup(i2b(p)) })
		w.Emit(tr.E{"ev": "Lookup", "w": p, "id": id, "ok": found, "res": res})
	}
	if prop == "C13" {
		// every other search also runs on a serialised copy of d decoded into a Dawg that held another automaton (with the empty word) before:
		// a Dawg is a Dawg however it was obtained
		var d2 *dawg.Dawg
		obs.Safe(func() {
			var pb dawg.Builder
			pb.Add([]byte{})
			pb.Add([]byte{97})
			p, _ := pb.Finish()
			pbytes, _ := p.GobEncode()
			enc, _ := d.GobEncode()
			x := new(dawg.Dawg)
			if x.GobDecode(pbytes) == nil && x.GobDecode(enc) == nil {
				d2 = x
			}
		})
		for k, s := range in.Searches {
			runSearch(w, d, s)
			if d2 != nil && k%2 == 0 {
				runSearch(w, d2, s)
			}
		}
	}
	if in.Gob && prop == "C14" {
		runGob(w, d, in)
	}
}

// runGob: b1 = GobEncode(d); d2 via GobDecode; d3 via encoding/gob; b2 = GobEncode(d2).
func runGob(w *tr.W, d *dawg.Dawg, in dawgIn) {
	same4 := true
	var b1, b2, snap []byte
	var e1, e2, e3, e4 error
	d2 := new(dawg.Dawg)
	d3 := new(dawg.Dawg)
	nodes2, nodes3, nodes4 := []nodeJ{}, []nodeJ{}, []nodeJ{}
	var e5 error
	nw2 := 0
	lookups := []tr.E{}
	res := obs.Safe(func() {
		b1, e1 = d.GobEncode()
		if e1 != nil {
			return
		}
		snap = append([]byte{}, b1...) // the bytes as returned; b1 itself is kept and compared again after other Dawgs were encoded
		in2 := append([]byte{}, snap...)
		e2 = d2.GobDecode(in2)
		if e2 != nil {
			return
		}
		for i := range in2 { // the caller goes on to use its buffer: the decoded automaton must not refer to it
			in2[i] = 0xAA
		}
		nodes2 = nodeTable(d2)
		nw2 = d2.NumberOfWords()
		b2, e3 = d2.GobEncode()
		var buf bytes.Buffer
		e4 = gob.NewEncoder(&buf).Encode(d)
		if e4 == nil {
			e4 = gob.NewDecoder(&buf).Decode(d3)
		}
		if e4 == nil {
			nodes3 = nodeTable(d3)
		}
		// decode into a receiver that already holds another automaton (with the empty word): GobDecode replaces its contents
		d4, _ := dawg.New([][]byte{{}, {120}, {120, 121}})
		d4.GobEncode() // a different, small automaton encoded while b1 is still held by its caller
		e5 = d4.GobDecode(append([]byte{}, snap...))
		if e5 == nil {
			nodes4 = nodeTable(d4)
			b4, e6 := d4.GobEncode() // the receiver was encoded before it was overwritten: nothing of the old automaton may survive
			same4 = e6 == nil && bytes.Equal(b4, snap)
		}
		for _, p := range in.Probes {
			id, ok := d2.Lookup(i2b(p))
			lookups = append(lookups, tr.E{"w": p, "id": id, "ok": ok})
		}
	})
	errs := func(e error) string {
		if e == nil {
			return ""
		}
		return e.Error()
	}
	bytesOut := b2i(snap)
	if len(bytesOut) > 6000 {
		bytesOut = []int{}
	}
	w.Emit(tr.E{"ev": "Gob", "res": res, "b1": bytesOut, "b1len": len(b1), "enc_err": errs(e1), "dec_err": errs(e2), "enc2_err": errs(e3), "gob_err": errs(e4),
		"same_bytes": bytes.Equal(snap, b2), "b1_stable": bytes.Equal(b1, snap), "same4": same4, "nodes2": nodes2, "nodes3": nodes3, "nwords2": nw2, "lookups2": lookups, "nodes1": nodeTable(d), "nodes4": nodes4, "dec4_err": errs(e5)})
}

// ---- word set families ----

func allWords(alpha []int, maxLen int) [][]int {
	out := [][]int{{}}
	prev := [][]int{{}}
	for l := 1; l <= maxLen; l++ {
		var cur [][]int
		for _, p := range prev {
			for _, a := range alpha {
				cur = append(cur, append(cp(p), a))
			}
		}
		out = append(out, cur...)
		prev = cur
	}
	return out
}

func lessWord(a, b []int) bool { return bytes.Compare(i2b(a), i2b(b)) < 0 }

func sortWords(ws [][]int) [][]int {
	sort.Slice(ws, func(i, j int) bool { return lessWord(ws[i], ws[j]) })
	out := [][]int{}
	for i, w := range ws {
		if i == 0 || lessWord(ws[i-1], w) {
			out = append(out, w)
		}
	}
	return out
}

func randomSet(r *rand.Rand, alpha []int, maxLen, n int) [][]int {
	ws := [][]int{}
	for i := 0; i < n; i++ {
		l := r.Intn(maxLen + 1)
		w := make([]int, l)
		for k := range w {
			w[k] = alpha[r.Intn(len(alpha))]
		}
		ws = append(ws, w)
	}
	return sortWords(ws)
}

// withRejects interleaves duplicate / out-of-order Adds into a sorted list.
func withRejects(r *rand.Rand, ws [][]int) [][]int {
	out := [][]int{}
	for i, w := range ws {
		out = append(out, w)
		switch r.Intn(4) {
		case 0:
			out = append(out, w) // duplicate
		case 1:
			out = append(out, ws[r.Intn(i+1)]) // an earlier (or the same) word
		}
	}
	return out
}

func probesFor(alpha []int, maxLen int) [][]int { return allWords(alpha, maxLen) }

var crosswd [][]int

func loadCrosswd() [][]int {
	if crosswd != nil {
		return crosswd
	}
	f, err := os.Open("/repo/dawg/testdata/CROSSWD.TXT")
	if err != nil {
		return nil
	}
	defer f.Close()
	sc := bufio.NewScanner(f)
	for sc.Scan() {
		t := strings.TrimSpace(sc.Text())
		if t != "" {
			crosswd = append(crosswd, b2i([]byte(t)))
		}
	}
	crosswd = sortWords(crosswd)
	return crosswd
}

func memberProbes(r *rand.Rand, ws [][]int, extra int) [][]int {
	ps := [][]int{}
	ps = append(ps, ws...)
	for i := 0; i < extra && len(ws) > 0; i++ {
		w := ws[r.Intn(len(ws))]
		switch r.Intn(3) {
		case 0:
			if len(w) > 0 {
				ps = append(ps, cp(w[:len(w)-1]))
			}
		case 1:
			ps = append(ps, append(cp(w), 97+r.Intn(26)))
		default:
			v := cp(w)
			if len(v) > 0 {
				v[r.Intn(len(v))] = 97 + r.Intn(26)
			}
			ps = append(ps, v)
		}
	}
	return ps
}

func dawgFamilies(c *Ctx, prop string) []dawgIn {
	r := rand.New(rand.NewSource(c.Seed))
	big := c.Thorough()
	var fams []dawgIn
	ab, abc := []int{97, 98}, []int{97, 98, 99}
	add := func(in dawgIn) { fams = append(fams, in) }
	// boundary sets
	add(dawgIn{Name: "empty", Adds: [][]int{}, Probes: probesFor(ab, 2), Table: true, Gob: true})
	add(dawgIn{Name: "emptyword", Adds: [][]int{{}}, Probes: probesFor(ab, 2), Table: true, Gob: true})
	add(dawgIn{Name: "emptyword-nil", Adds: [][]int{{}}, NilEmpty: true, Probes: probesFor(ab, 2), Table: true, Gob: true})
	add(dawgIn{Name: "emptyword-nil-twice", Adds: [][]int{{}, {}}, NilEmpty: true, Probes: probesFor(ab, 2), Table: true})
	add(dawgIn{Name: "emptyword-twice", Adds: [][]int{{}, {}, {97}, {}}, Probes: probesFor(ab, 2), Table: true})
	// EVERY sequence of Adds (sorted or not: runs of rejected adds) of length <= 4 (5 thorough) over {a,b}^<=2
	{
		univ := allWords(ab, 2)
		maxK := 4
		if big {
			maxK = 5
		}
		var rec func(seq [][]int)
		rec = func(seq [][]int) {
			if len(seq) >= 2 {
				add(dawgIn{Name: "addseq", Adds: append([][]int{}, seq...), Probes: probesFor(ab, 3), Table: true})
			}
			if len(seq) == maxK {
				return
			}
			for _, w := range univ {
				rec(append(seq, w))
			}
		}
		rec(nil)
	}
	// Builder life cycles (DawgLife.tla): EVERY script of at most 4 (5 thorough) calls from {Add "", Add a, Add b, Add ab, Finish, Initialise}
	if prop == "C12" {
		calls := []lifeOp{{"add", []int{}}, {"add", []int{97}}, {"add", []int{98}}, {"add", []int{97, 98}}, {"finish", nil}, {"init", nil}}
		maxK := 4
		if big {
			maxK = 5
		}
		var rec func(seq []lifeOp, interesting bool)
		rec = func(seq []lifeOp, interesting bool) {
			if interesting { // scripts without Finish / Initialise are the addseq family above
				add(dawgIn{Name: "life", Life: append([]lifeOp{}, seq...), Probes: probesFor(ab, 2)})
			}
			if len(seq) == maxK {
				return
			}
			for _, o := range calls {
				rec(append(seq, o), interesting || o.Op != "add")
			}
		}
		rec(nil, false)
		for i := 0; i < 40; i++ { // longer random life cycles over {a,b,c}^<=3
			var ops []lifeOp
			for k := 0; k < 6+r.Intn(14); k++ {
				switch x := r.Intn(10); {
				case x < 7:
					ws := randomSet(r, abc, 3, 1)
					ops = append(ops, lifeOp{"add", ws[0]})
				case x < 9:
					ops = append(ops, lifeOp{"finish", nil})
				default:
					ops = append(ops, lifeOp{"init", nil})
				}
			}
			add(dawgIn{Name: "life-random", Life: ops, Probes: probesFor(abc, 2)})
		}
	}
	n1, n2 := 150, 150
	if big {
		n1, n2 = 1500, 1500
	}
	for i := 0; i < n1; i++ {
		ws := randomSet(r, ab, 4, 1+r.Intn(14))
		add(dawgIn{Name: "ab4", Adds: withRejects(r, ws), Probes: probesFor(ab, 5), Table: true, Gob: i%3 == 0})
	}
	for i := 0; i < n2; i++ {
		ws := randomSet(r, abc, 3, 1+r.Intn(16))
		add(dawgIn{Name: "abc3", Adds: withRejects(r, ws), Probes: probesFor(abc, 4), Table: true, Gob: i%3 == 0})
	}
	// full byte alphabet incl. 0, 127, 128, 255
	wide := []int{0, 1, 127, 128, 200, 255}
	for i := 0; i < 60; i++ {
		ws := randomSet(r, wide, 3, 1+r.Intn(12))
		add(dawgIn{Name: "wide", Adds: withRejects(r, ws), Probes: probesFor(wide, 3), Table: true, Gob: true})
	}
	// long shared prefixes and suffixes
	for i := 0; i < 20; i++ {
		var ws [][]int
		pre := make([]int, 5+r.Intn(20))
		for k := range pre {
			pre[k] = 97 + r.Intn(3)
		}
		suf := make([]int, 5+r.Intn(20))
		for k := range suf {
			suf[k] = 97 + r.Intn(3)
		}
		for k := 0; k < 12; k++ {
			mid := make([]int, r.Intn(3))
			for q := range mid {
				mid[q] = 97 + r.Intn(3)
			}
			w := append(cp(pre[:r.Intn(len(pre)+1)]), mid...)
			w = append(w, suf[r.Intn(len(suf)):]...)
			ws = append(ws, w)
		}
		ws = sortWords(ws)
		add(dawgIn{Name: "presuf", Adds: ws, Probes: memberProbes(r, ws, 20), Table: true, Gob: true})
	}
	// a Builder that built another set before (Finish, Initialise): nothing of the first build may show in the second automaton, its
	// node numbering included (the serialisation identifies nodes by their ids)
	{
		nre := 40
		if big {
			nre = 400
		}
		al := []int{97, 98, 99, 100, 105, 116, 117}
		for k := 0; k < nre; k++ {
			a := al[:2+r.Intn(len(al)-1)]
			prior := sortWords(randomSet(r, a, 1+r.Intn(4), 1+r.Intn(6)))
			ws := sortWords(randomSet(r, a, 1+r.Intn(4), 1+r.Intn(8)))
			add(dawgIn{Name: "reused-builder", Prior: prior, Adds: ws, Probes: memberProbes(r, ws, 12), Table: true, Gob: true})
		}
		add(dawgIn{Name: "reused-builder", Prior: [][]int{{99, 97, 116}, {99, 117, 116}}, Adds: sortWords([][]int{{97, 116}, {98, 105, 116}, {98, 117, 100}, {98, 117, 116}}),
			Probes: [][]int{{97, 116}, {98, 117, 116}, {99, 97, 116}}, Table: true, Gob: true})
	}
	// wide nodes: a node with k children (C14: the child count crosses the 1-byte varint boundary)
	for _, k := range []int{1, 2, 127, 128, 129, 200, 255, 256} {
		var ws [][]int
		for b := 0; b < k; b++ {
			ws = append(ws, []int{b})
			if b%50 == 0 {
				ws = append(ws, []int{b, 7})
			}
		}
		ws = sortWords(ws)
		add(dawgIn{Name: fmt.Sprintf("fan%d", k), Adds: ws, Probes: memberProbes(r, ws, 10), Table: true, Gob: true})
	}
	// exact node counts around the one-byte boundaries 127/128 and 255/256/257: one word of L letters has L+1 nodes, two words that
	// share nothing but the root have L1+L2+1
	for _, L := range []int{126, 127, 128, 254, 255, 256, 257} {
		w1 := make([]int, L)
		for k := range w1 {
			w1[k] = 97 + (k*7)%5 + k%2
		}
		add(dawgIn{Name: fmt.Sprintf("chain%d", L+1), Adds: [][]int{w1}, Probes: [][]int{w1, w1[:L-1], append(cp(w1), 97)}, Table: true, Gob: true})
		w2 := append([]int{122}, w1[:L/2]...)
		ws := sortWords([][]int{w1[:L-L/2-1], w2})
		add(dawgIn{Name: fmt.Sprintf("twochains%d", L+1), Adds: ws, Probes: ws, Table: true, Gob: true})
	}
	// more than 127 nodes / words: dictionary samples
	if cw := loadCrosswd(); len(cw) > 1000 {
		ns := []int{50, 120, 200}
		if big {
			ns = []int{50, 120, 200, 200, 200, 300}
		}
		for _, n := range ns {
			start := r.Intn(len(cw) - n)
			ws := cw[start : start+n] // consecutive words: long shared prefixes
			add(dawgIn{Name: "crosswd-consecutive", Adds: ws, Probes: memberProbes(r, ws, 40), Table: true, Gob: true})
			var sc [][]int
			for i := 0; i < n; i++ {
				sc = append(sc, cw[r.Intn(len(cw))])
			}
			sc = sortWords(sc)
			add(dawgIn{Name: "crosswd-scattered", Adds: sc, Probes: memberProbes(r, sc, 40), Table: true, Gob: true})
		}
		n := 1500
		if big {
			n = 4000
		}
		var sc [][]int
		for i := 0; i < n; i++ {
			sc = append(sc, cw[r.Intn(len(cw))])
		}
		sc = sortWords(sc)
		add(dawgIn{Name: "crosswd-large", Adds: sc, Probes: memberProbes(r, sc, 60), Table: false, Gob: true})
	}
	return fams
}

// ---- lead screening: rare, alphabet-dependent slips (e.g. an ambiguous textual register key) need far more word sets than the acceptor
// can judge. screenLeads builds many random sets over "awkward" alphabets (ASCII digits, separators, a letter) and keeps those on which the
// real Dawg is not even self-consistent (a stored word not found at its own position, a wrong count, a near-miss accepted). The leads carry
// no verdict: they are added as ordinary families and judged by DawgTrace.tla like every other input. ----

func screenLeads(c *Ctx, total int) (leads []dawgIn, screened int) {
	alphabets := [][]int{
		{48, 49, 50, 51, 97},                     // 0 1 2 3 a
		{48, 49, 50, 57, 44},                     // 0 1 2 9 ,
		{45, 49, 58, 59, 124, 32},                // - 1 : ; | space
		{0, 1, 10, 48, 255},                      // NUL, SOH, LF, 0, 0xff
		{97, 98, 99, 100},                        // a b c d
		{48, 49, 50, 51, 52, 53, 54, 55, 56, 57}, // 0..9
	}
	workers := 16
	per := total / workers
	type found struct {
		in   dawgIn
		size int
	}
	out := make(chan []found, workers)
	for wk := 0; wk < workers; wk++ {
		go func(wk int) {
			r := rand.New(rand.NewSource(c.Seed*1000 + int64(wk)))
			var fs []found
			for it := 0; it < per && len(fs) < 4; it++ {
				alpha := alphabets[(it+wk)%len(alphabets)]
				n := 20 + r.Intn(20)
				ws := randomSet(r, alpha, 5, n)
				bs := make([][]byte, len(ws))
				member := map[string]int{}
				for i, w := range ws {
					bs[i] = i2b(w)
					member[string(bs[i])] = i
				}
				bad := false
				var probes [][]int
				res := obs.Safe(func() {
					d, err := dawg.New(bs)
					if err != nil || d == nil || d.NumberOfWords() != len(ws) {
						bad = true
						return
					}
					for i, b := range bs {
						if id, ok := d.Lookup(b); !ok || id != i {
							bad = true
							probes = append(probes, b2i(b))
						}
						variants := [][]byte{append(append([]byte{}, b...), byte(alpha[i%len(alpha)]))} // one letter more
						if len(b) > 0 {
							variants = append(variants, b[:len(b)-1]) // one letter less
						}
						for _, v := range variants {
							if _, in := member[string(v)]; in {
								continue
							}
							if _, ok := d.Lookup(v); ok {
								bad = true
								probes = append(probes, b2i(v))
							}
						}
					}
				})
				if res != "ok" {
					bad = true
				}
				if bad {
					if len(probes) > 20 {
						probes = probes[:20]
					}
					size := 0
					for _, w := range ws {
						size += len(w) + 1
					}
					fs = append(fs, found{dawgIn{Name: "screen-lead", Adds: ws, Probes: append(probes, ws...), Table: true, Gob: true}, size})
				}
			}
			out <- fs
		}(wk)
	}
	var all []found
	for wk := 0; wk < workers; wk++ {
		all = append(all, <-out...)
	}
	sort.Slice(all, func(i, j int) bool {
		if all[i].size != all[j].size {
			return all[i].size < all[j].size
		}
		return all[i].in.key("") < all[j].in.key("")
	})
	if len(all) > 6 {
		all = all[:6]
	}
	for _, f := range all {
		leads = append(leads, f.in)
	}
	return leads, per * workers
}

// ---- spec -> code replay of the DawgBuild.tla dump ----

type dawgState struct {
	Acc   [][]int `json:"acc"`
	Words int     `json:"words"`
	Nodes int     `json:"nodes"`
}
type dawgAct struct {
	Op  string `json:"op"`
	W   []int  `json:"w"`
	Err bool   `json:"err"`
}

func replayDawg(c *Ctx) (checked, steps int, mism []Mismatch) {
	alphaSet := map[int]bool{}
	maxLen := 0
	type tt struct {
		f, t dawgState
		a    dawgAct
	}
	var ts []tt
	readGenLines(c.Gen, "T", func(js string) {
		var raw GT
		if err := json.Unmarshal([]byte(js), &raw); err != nil {
			panic(err)
		}
		var x tt
		json.Unmarshal(raw.F, &x.f)
		json.Unmarshal(raw.T, &x.t)
		json.Unmarshal(raw.A, &x.a)
		for _, v := range x.a.W {
			alphaSet[v] = true
		}
		if len(x.a.W) > maxLen {
			maxLen = len(x.a.W)
		}
		ts = append(ts, x)
	})
	alpha := []int{}
	for v := range alphaSet {
		alpha = append(alpha, v)
	}
	sort.Ints(alpha)
	probes := allWords(alpha, maxLen+1)
	for _, x := range ts {
		checked++
		adds := append(append([][]int{}, x.f.Acc...), x.a.W)
		in := dawgIn{Name: "tlc", Adds: adds}
		why := ""
		var b dawg.Builder
		res := obs.Safe(func() {
			for i, wd := range adds {
				err := b.Add(i2b(wd))
				steps++
				wantErr := i == len(adds)-1 && x.a.Err
				if (err != nil) != wantErr {
					why = fmt.Sprintf("Add(%v) error=%v, specification %v", wd, err != nil, wantErr)
					return
				}
			}
			d, err := b.Finish()
			if err != nil {
				why = "Finish: " + err.Error()
				return
			}
			if d.NumberOfWords() != x.t.Words {
				why = fmt.Sprintf("NumberOfWords=%d, specification %d", d.NumberOfWords(), x.t.Words)
				return
			}
			if n := len(dawg.VerifNodes(d)); n != x.t.Nodes {
				why = fmt.Sprintf("%d nodes, minimal automaton has %d", n, x.t.Nodes)
				return
			}
			rank := map[string]int{}
			for i, wd := range x.t.Acc {
				rank[string(i2b(wd))] = i
			}
			for _, p := range probes {
				id, ok := d.Lookup(i2b(p))
				steps++
				rk, member := rank[string(i2b(p))]
				if ok != member || (member && id != rk) {
					why = fmt.Sprintf("Lookup(%v)=(%d,%v), specification (%d,%v)", p, id, ok, rk, member)
					return
				}
			}
		})
		if res != "ok" {
			why = res
		}
		if why != "" {
			in.Probes = probes
			in.Table = true
			mism = append(mism, Mismatch{Key: in.key("C12"), Why: why, Input: in})
		}
	}
	return
}

// ---- spec -> code replay of the DawgLife.tla dump ("L" lines): every transition of the life-cycle model after a shortest history ----

type lifeState struct {
	Acc  [][]int   `json:"acc"`
	Done bool      `json:"done"`
	Outs [][][]int `json:"outs"`
}

func replayLife(c *Ctx) (checked, steps int, mism []Mismatch) {
	g := loadGenTag(c.Gen, "L")
	if len(g.Trans) == 0 {
		return
	}
	acts := make([]dawgAct, len(g.Trans))
	tos := make([]lifeState, len(g.Trans))
	for i, t := range g.Trans {
		json.Unmarshal(t.A, &acts[i])
		json.Unmarshal(t.T, &tos[i])
	}
	probes := allWords([]int{97, 98}, 2)
	for i := range g.Trans {
		idx := g.History(i)
		checked++
		var ops []lifeOp
		why := ""
		var b dawg.Builder
		var returned []*dawg.Dawg
		res := obs.Safe(func() {
			for _, j := range idx {
				a := acts[j]
				var err error
				switch a.Op {
				case "Add":
					ops = append(ops, lifeOp{"add", a.W})
					err = b.Add(i2b(a.W))
				case "Finish":
					ops = append(ops, lifeOp{"finish", nil})
					var d *dawg.Dawg
					d, err = b.Finish()
					if err == nil {
						returned = append(returned, d)
					}
				default:
					ops = append(ops, lifeOp{"init", nil})
					b.Initialise()
				}
				steps++
				if (err != nil) != a.Err {
					why = fmt.Sprintf("%s(%v) error=%v, specification %v", a.Op, a.W, err != nil, a.Err)
					return
				}
				if len(returned) != len(tos[j].Outs) {
					why = fmt.Sprintf("%d automata returned so far, specification %d", len(returned), len(tos[j].Outs))
					return
				}
				for k, d := range returned { // every Dawg returned so far still is the index of what it was built from
					want := tos[j].Outs[k]
					rank := map[string]int{}
					for q, wd := range want {
						rank[string(i2b(wd))] = q
					}
					if d.NumberOfWords() != len(want) {
						why = fmt.Sprintf("returned Dawg #%d has NumberOfWords=%d, specification %d", k+1, d.NumberOfWords(), len(want))
						return
					}
					for _, p := range probes {
						id, ok := d.Lookup(i2b(p))
						rk, member := rank[string(i2b(p))]
						if ok != member || (member && id != rk) {
							why = fmt.Sprintf("returned Dawg #%d: Lookup(%v)=(%d,%v), specification (%d,%v)", k+1, p, id, ok, rk, member)
							return
						}
					}
				}
			}
		})
		if res != "ok" {
			why = res
		}
		if why != "" {
			in := dawgIn{Name: "tlc-life", Life: ops, Probes: probes}
			mism = append(mism, Mismatch{Key: in.key("C12"), Why: why, Input: in})
		}
	}
	return
}

func driveDawg(c *Ctx, prop string) {
	set := tr.NewSet(c.Out, "trace", c.Shards)
	meta := map[string]interface{}{}
	finish := func() {
		meta["segments"] = set.Segs
		meta["events"] = set.Close()
		tr.WriteJSON(c.Out+"/meta.json", meta)
	}
	if c.In != "" {
		for _, raw := range readInputs(c.In) {
			var in dawgIn
			if err := json.Unmarshal(raw, &in); err != nil {
				panic(err)
			}
			runDawg(set.Begin(in.key(prop), tr.E{"input": in}), in, prop)
		}
		finish()
		return
	}
	if c.Gen != "" {
		checked, steps, mism := replayDawg(c)
		meta["A_transitions_replayed"] = checked
		meta["A_steps"] = steps
		meta["A_mismatches"] = len(mism)
		if prop == "C12" {
			ch2, st2, m2 := replayLife(c)
			meta["A_life_transitions_replayed"] = ch2
			meta["A_life_steps"] = st2
			meta["A_mismatches"] = len(mism) + len(m2)
			mism = append(mism, m2...)
		}
		tr.WriteJSON(c.Out+"/replayA.json", capMismatches(mism, 25))
	}
	fams := dawgFamilies(c, prop)
	if prop == "C13" {
		fams = searchFamilies(c, fams)
	}
	if prop == "C12" {
		n := 400000
		if c.Thorough() {
			n = 6000000
		}
		leads, screened := screenLeads(c, n)
		meta["B_sets_screened_for_leads"] = screened
		meta["B_leads"] = len(leads)
		fams = append(fams, leads...)
	}
	names := map[string]int{}
	for _, in := range fams {
		names[in.Name]++
		if prop == "C14" && !in.Gob {
			continue
		}
		runDawg(set.Begin(in.key(prop), tr.E{"input": in}), in, prop)
	}
	meta["families"] = names
	finish()
}
