package main

// C17: sortints.SortedInts (and ints.Sort).
//  A: every transition of SortedInts.tla's state graph (TLC dump) replayed from a shortest history,
//     receivers created with and without spare capacity, all handles observed after each call.
//  B: seeded random histories with wide values and long argument lists, the full Range grid and
//     ints.Sort inputs, logged for SortedIntsTrace.tla.

import (
	"encoding/json"
	"fmt"
	"math"
	"math/rand"
	"sort"
	"strings"

	"github.com/Tom-Johnston/mamba/ints"
	"github.com/Tom-Johnston/mamba/sortints"

	"verifharness/internal/obs"
	"verifharness/internal/tr"
)

func init() { drivers["C17"] = driveC17 }

type SAct struct {
	Op string `json:"op"`
	H  int    `json:"h"`
	H2 int    `json:"h2"`
	Xs []int  `json:"xs"`
	Ys []int  `json:"ys"`
	X  int    `json:"x"`
	Y  int    `json:"y"`
	Z  int    `json:"z"`
}

type SRes struct {
	Kind string `json:"kind"`
	S    []int  `json:"s"`
	I    int    `json:"i"`
	B    bool   `json:"b"`
}

type SVal struct {
	Live bool  `json:"live"`
	S    []int `json:"s"`
}

func (a SAct) String() string {
	switch a.Op {
	case "New":
		return fmt.Sprintf("h%d=New%s(%v)", a.H, map[int]string{0: "", 1: "+cap"}[a.Z], a.Xs)
	case "Add":
		return fmt.Sprintf("h%d.Add(%v)", a.H, a.Xs)
	case "Remove":
		return fmt.Sprintf("h%d.Remove(%d)", a.H, a.X)
	case "UnionM":
		return fmt.Sprintf("h%d.Union(h%d)", a.H, a.H2)
	case "Complement", "ContainsSingle":
		return fmt.Sprintf("%s(h%d,%d)", a.Op, a.H, a.X)
	case "Range":
		return fmt.Sprintf("Range(%d,%d,%d)", a.X, a.Y, a.Z)
	case "IntsEqual", "IntsCompare", "IntsHasPrefix", "IntsAdd", "IntsMax", "IntsMin", "IntsSum", "IntsReverse":
		return fmt.Sprintf("%s(%v,%v)", a.Op, a.Xs, a.Ys)
	case "Sort":
		if len(a.Xs) > 12 {
			return fmt.Sprintf("Sort(len=%d,%v...)", len(a.Xs), a.Xs[:12])
		}
		return fmt.Sprintf("Sort(%v)", a.Xs)
	}
	return fmt.Sprintf("%s(h%d,h%d)", a.Op, a.H, a.H2)
}

func sKey(h []SAct) string {
	s := make([]string, len(h))
	for i := range h {
		s[i] = h[i].String()
	}
	return strings.Join(s, ";")
}

func cp(s []int) []int { return append([]int{}, s...) }

// applyS executes one action; returns the result record, the argument list as it looks after the
// call, and "ok" or the classified panic.
func applyS(hs map[int]*sortints.SortedInts, a SAct) (r SRes, xsAfter []int, res string) {
	r = SRes{Kind: "none", S: []int{}}
	xs := cp(a.Xs)
	// A function result is recorded and then scribbled over in place before any handle is observed:
	// the documentation promises a NEW value, so writing to it must not show through in an argument.
	set := func(s sortints.SortedInts) {
		r = SRes{Kind: "set", S: cp(s)}
		for i := range s {
			s[i] = -987654321
		}
		s = s[:cap(s)]
		for i := range s {
			s[i] = -987654321
		}
	}
	res = obs.Safe(func() {
		switch a.Op {
		case "New":
			v := sortints.NewSortedInts(xs...)
			if a.Z == 1 {
				w := make(sortints.SortedInts, len(v), len(v)+4)
				copy(w, v)
				v = w
			}
			hs[a.H] = &v
		case "Add":
			hs[a.H].Add(xs...)
		case "Remove":
			hs[a.H].Remove(a.X)
		case "UnionM":
			hs[a.H].Union(*hs[a.H2])
		case "Union":
			set(sortints.Union(*hs[a.H], *hs[a.H2]))
		case "Intersection":
			set(sortints.Intersection(*hs[a.H], *hs[a.H2]))
		case "SetMinus":
			set(sortints.SetMinus(*hs[a.H], *hs[a.H2]))
		case "XOR":
			set(sortints.XOR(*hs[a.H], *hs[a.H2]))
		case "IntersectionSize":
			r = SRes{Kind: "int", S: []int{}, I: sortints.IntersectionSize(*hs[a.H], *hs[a.H2])}
		case "Complement":
			set(sortints.Complement(a.X, *hs[a.H]))
		case "ContainsSingle":
			r = SRes{Kind: "bool", S: []int{}, B: sortints.ContainsSingle(*hs[a.H], a.X)}
		case "ContainsSorted":
			r = SRes{Kind: "bool", S: []int{}, B: sortints.ContainsSorted(*hs[a.H], *hs[a.H2])}
		case "Range":
			set(sortints.Range(a.X, a.Y, a.Z))
		case "IntsEqual":
			r = SRes{Kind: "bool", S: []int{}, B: ints.Equal(xs, cp(a.Ys))}
		case "IntsCompare":
			r = SRes{Kind: "int", S: []int{}, I: ints.Compare(xs, cp(a.Ys))}
		case "IntsHasPrefix":
			r = SRes{Kind: "bool", S: []int{}, B: ints.HasPrefix(xs, cp(a.Ys))}
		case "IntsMax":
			r = SRes{Kind: "int", S: []int{}, I: ints.Max(xs)}
		case "IntsMin":
			r = SRes{Kind: "int", S: []int{}, I: ints.Min(xs)}
		case "IntsSum":
			r = SRes{Kind: "int", S: []int{}, I: ints.Sum(xs)}
		case "IntsReverse":
			r = SRes{Kind: "seq", S: cp(ints.Reverse(xs))}
			xs = cp(a.Xs)
		case "IntsAdd":
			ints.Add(xs, cp(a.Ys))
			r = SRes{Kind: "seq", S: cp(xs)}
			xs = cp(a.Xs)
		case "Sort":
			ints.Sort(xs)
			r = SRes{Kind: "seq", S: cp(xs)}
			xs = cp(a.Xs)
		default:
			panic("unknown op " + a.Op)
		}
	})
	if strings.HasPrefix(res, "refuse:") {
		r = SRes{Kind: "refuse", S: []int{}}
	}
	return r, xs, res
}

func observeS(hs map[int]*sortints.SortedInts, handles int) []SVal {
	out := make([]SVal, handles)
	for h := 1; h <= handles; h++ {
		if p, ok := hs[h]; ok {
			out[h-1] = SVal{Live: true, S: cp(*p)}
		} else {
			out[h-1] = SVal{S: []int{}}
		}
	}
	return out
}

func eqS(a, b []int) bool {
	if len(a) != len(b) {
		return false
	}
	for i := range a {
		if a[i] != b[i] {
			return false
		}
	}
	return true
}

func replayC17(c *Ctx) (checked, steps int, mism []Mismatch) {
	g := loadGen(c.Gen)
	acts := make([]SAct, len(g.Trans))
	ress := make([]SRes, len(g.Trans))
	tos := make([][]SVal, len(g.Trans))
	for i, t := range g.Trans {
		if err := json.Unmarshal(t.A, &acts[i]); err != nil {
			panic(err)
		}
		json.Unmarshal(t.R, &ress[i])
		json.Unmarshal(t.T, &tos[i])
	}
	seen := map[string]bool{}
	for i := range g.Trans {
		idx := g.History(i)
		hist := make([]SAct, len(idx))
		for k, j := range idx {
			hist[k] = acts[j]
		}
		hs := map[int]*sortints.SortedInts{}
		checked++
		for k, j := range idx {
			r, xsAfter, res := applyS(hs, acts[j])
			steps++
			why := ""
			switch {
			case res != "ok":
				why = res
			case !eqS(xsAfter, acts[j].Xs):
				why = "argument list modified"
			case r.Kind != ress[j].Kind || !eqS(r.S, ress[j].S) || r.I != ress[j].I || r.B != ress[j].B:
				why = fmt.Sprintf("result %+v, specification %+v", r, ress[j])
			default:
				got := observeS(hs, len(tos[j]))
				for h := range got {
					if got[h].Live != tos[j][h].Live || !eqS(got[h].S, tos[j][h].S) {
						why = fmt.Sprintf("h%d = %v, specification %v", h+1, got[h].S, tos[j][h].S)
						break
					}
				}
			}
			if why != "" {
				key := sKey(hist[:k+1])
				if !seen[key] {
					seen[key] = true
					mism = append(mism, Mismatch{Key: key, Why: why + " after " + acts[j].String(), Input: map[string]interface{}{"hist": hist[:k+1]}})
				}
				break
			}
		}
	}
	return
}

// wide16 is an order-preserving embedding of the abstract values 0..15 into the whole int range.  A history "in wide16" is executed on
// the embedded values and logged in abstract values (anything outside the image is logged as 900000+k), so that the acceptor - whose
// integers are 32-bit - judges the order-only operations also where differences of elements overflow.
var wide16 = []int{math.MinInt, math.MinInt + 1, math.MinInt + 2, -6000000000000000000, -4700000000000000000, -(1 << 62), -(1 << 32) - 1, -1,
	0, 1, 1 << 31, 1 << 62, 4700000000000000000, 6000000000000000000, math.MaxInt - 1, math.MaxInt}

type embedding struct {
	fwd     []int
	back    map[int]int
	strange map[int]int
}

func newEmbedding(name string) *embedding {
	if name == "" {
		return nil
	}
	if name != "wide16" {
		panic("unknown embedding " + name)
	}
	e := &embedding{fwd: wide16, back: map[int]int{}, strange: map[int]int{}}
	for i, v := range wide16 {
		e.back[v] = i
	}
	return e
}

func (e *embedding) to(xs []int) []int {
	if e == nil || xs == nil {
		return xs
	}
	out := make([]int, len(xs))
	for i, x := range xs {
		out[i] = e.fwd[x]
	}
	return out
}

func (e *embedding) from(xs []int) []int {
	if e == nil || xs == nil {
		return xs
	}
	out := make([]int, len(xs))
	for i, x := range xs {
		if a, ok := e.back[x]; ok {
			out[i] = a
		} else if x == -987654321 {
			out[i] = x
		} else {
			if _, ok := e.strange[x]; !ok {
				e.strange[x] = 900000 + len(e.strange)
			}
			out[i] = e.strange[x]
		}
	}
	return out
}

func runHistoryS(w *tr.W, hist []SAct) { runHistoryE(w, hist, "") }

func runHistoryE(w *tr.W, hist []SAct, emb string) {
	hs := map[int]*sortints.SortedInts{}
	e := newEmbedding(emb)
	for _, a := range hist {
		b := a
		if e != nil {
			b.Xs, b.Ys = e.to(a.Xs), e.to(a.Ys)
			if a.Op == "Remove" || a.Op == "ContainsSingle" {
				b.X = e.fwd[a.X]
			}
		}
		r, xsAfter, res := applyS(hs, b)
		if e != nil {
			r.S, xsAfter = e.from(r.S), e.from(xsAfter)
		}
		if a.Xs == nil {
			a.Xs = []int{}
		}
		ob := observeS(hs, 3)
		if e != nil {
			for i := range ob {
				ob[i].S = e.from(ob[i].S)
			}
		}
		w.Emit(tr.E{"ev": "Op", "a": a, "r": r, "res": res, "xs_after": xsAfter, "obs": ob})
		if strings.HasPrefix(res, "crash:") {
			return
		}
	}
}

// wideHistoryS: order-only operations over the abstract values 0..15 (executed through wide16)
func wideHistoryS(r *rand.Rand, length int) []SAct {
	list := func() []int {
		xs := make([]int, r.Intn(8))
		for i := range xs {
			xs[i] = r.Intn(16)
		}
		return xs
	}
	hist := []SAct{{Op: "New", H: 1, Xs: list(), Z: r.Intn(2)}, {Op: "New", H: 2, Xs: list(), Z: r.Intn(2)}}
	fun := []string{"Union", "Intersection", "SetMinus", "XOR", "IntersectionSize", "ContainsSorted"}
	for len(hist) < length {
		h := 1 + r.Intn(2)
		switch x := r.Intn(100); {
		case x < 10:
			hist = append(hist, SAct{Op: "New", H: h, Xs: list(), Z: r.Intn(2)})
		case x < 25:
			hist = append(hist, SAct{Op: "Add", H: h, Xs: list()})
		case x < 35:
			hist = append(hist, SAct{Op: "Remove", H: h, X: r.Intn(16)})
		case x < 42:
			hist = append(hist, SAct{Op: "UnionM", H: h, H2: 3 - h})
		case x < 85:
			hist = append(hist, SAct{Op: fun[r.Intn(len(fun))], H: h, H2: 3 - h})
		case x < 93:
			hist = append(hist, SAct{Op: "ContainsSingle", H: h, X: r.Intn(16)})
		default:
			base := r.Perm(16)[:2+r.Intn(9)] // at most 10 distinct values per sort input (cost of the bag comparison in TLC)
			xs := make([]int, 2+r.Intn(30))
			for i := range xs {
				xs[i] = base[r.Intn(len(base))]
			}
			hist = append(hist, SAct{Op: "Sort", Xs: xs})
		}
	}
	return hist
}

func randHistoryS(r *rand.Rand, length int) []SAct {
	wide := r.Intn(3) == 0
	val := func() int {
		if wide {
			return r.Intn(2001) - 1000
		}
		return r.Intn(15) - 5
	}
	list := func() []int {
		n := r.Intn(9)
		xs := make([]int, n)
		for i := range xs {
			xs[i] = val()
		}
		return xs
	}
	live := map[int]bool{}
	hist := []SAct{}
	h0 := 1 + r.Intn(3)
	hist = append(hist, SAct{Op: "New", H: h0, Xs: list(), Z: r.Intn(2)})
	live[h0] = true
	pick := func() int {
		for {
			h := 1 + r.Intn(3)
			if live[h] {
				return h
			}
		}
	}
	fun := []string{"Union", "Intersection", "SetMinus", "XOR", "IntersectionSize", "ContainsSorted"}
	for len(hist) < length {
		switch x := r.Intn(100); {
		case x < 12:
			h := 1 + r.Intn(3)
			hist = append(hist, SAct{Op: "New", H: h, Xs: list(), Z: r.Intn(2)})
			live[h] = true
		case x < 40:
			hist = append(hist, SAct{Op: "Add", H: pick(), Xs: list()})
		case x < 55:
			hist = append(hist, SAct{Op: "Remove", H: pick(), X: val()})
		case x < 67:
			hist = append(hist, SAct{Op: "UnionM", H: pick(), H2: pick()})
		case x < 87:
			hist = append(hist, SAct{Op: fun[r.Intn(len(fun))], H: pick(), H2: pick()})
		case x < 93:
			hist = append(hist, SAct{Op: "Complement", H: pick(), X: r.Intn(14)})
		default:
			hist = append(hist, SAct{Op: "ContainsSingle", H: pick(), X: val()})
		}
	}
	return hist
}

func sortInputs(r *rand.Rand, thorough bool) [][]int {
	var out [][]int
	// all sequences of length <= 6 over {0,1,2}
	var rec func(p []int, n int)
	rec = func(p []int, n int) {
		out = append(out, cp(p))
		if len(p) == n {
			return
		}
		for v := 0; v < 3; v++ {
			rec(append(p, v), n)
		}
	}
	rec(nil, 6)
	sizes := []int{13, 14, 20, 21, 40, 41, 50, 100, 101, 257, 1000}
	if thorough {
		sizes = append(sizes, 2000, 3000, 5000)
	}
	for _, n := range sizes {
		for rep := 0; rep < 6; rep++ {
			d := []int{2, 3, 5, 8, 1000000}[r.Intn(5)]
			s := make([]int, n)
			switch rep {
			case 0: // organ pipe
				for i := range s {
					if i < n/2 {
						s[i] = i % d
					} else {
						s[i] = (n - i) % d
					}
				}
			case 1: // descending
				for i := range s {
					s[i] = (n - i) / (1 + n/d)
				}
			case 2: // sawtooth
				for i := range s {
					s[i] = i % d
				}
			default:
				for i := range s {
					s[i] = r.Intn(d) - d/2
				}
			}
			if d > 8 { // keep the number of distinct values small enough for the acceptor's bag comparison
				for i := range s {
					s[i] = s[i] % 12
				}
			}
			out = append(out, s)
		}
	}
	// many short random slices with duplicates (13..60 elements, 2..9 distinct values): the pivot / duplicate handling of quicksort
	// goes wrong only for particular arrangements of equal elements around the pivot positions
	nshort := 4000
	if thorough {
		nshort = 40000
	}
	for i := 0; i < nshort; i++ {
		n := 13 + r.Intn(48)
		d := 2 + r.Intn(8)
		s := make([]int, n)
		for k := range s {
			s[k] = r.Intn(d)
		}
		out = append(out, s)
	}
	// adversarial inputs that exhaust quicksort's depth budget (heapsort fallback)
	advSizes := []int{300, 600}
	for n := 37; n <= 130; n++ { // many sizes: the parity and the contents of the range handed to heapSort differ from size to size
		advSizes = append(advSizes, n)
	}
	for _, n := range advSizes {
		if in, reached := sortAdversary(n); reached {
			out = append(out, in)
			rev := make([]int, n)
			for i, v := range in {
				rev[i] = v % 7 // the same shape with many duplicates does not need to reach the fallback; it is one more input
			}
			out = append(out, rev)
		}
	}
	return out
}

func driveC17(c *Ctx) {
	set := tr.NewSet(c.Out, "trace", c.Shards)
	meta := map[string]interface{}{}
	finish := func() {
		meta["segments"] = set.Segs
		meta["events"] = set.Close()
		tr.WriteJSON(c.Out+"/meta.json", meta)
	}
	if c.In != "" {
		for _, raw := range readInputs(c.In) {
			var in struct {
				Hist []SAct `json:"hist"`
				Emb  string `json:"emb"`
			}
			if err := json.Unmarshal(raw, &in); err != nil {
				panic(err)
			}
			key := sKey(in.Hist)
			if in.Emb != "" {
				key = in.Emb + ":" + key
			}
			w := set.Begin(key, tr.E{"input": in})
			runHistoryE(w, in.Hist, in.Emb)
		}
		finish()
		return
	}
	if c.Gen != "" {
		checked, steps, mism := replayC17(c)
		meta["A_transitions_replayed"] = checked
		meta["A_steps"] = steps
		meta["A_mismatches"] = len(mism)
		tr.WriteJSON(c.Out+"/replayA.json", capMismatches(mism, 25))
	}
	r := rand.New(rand.NewSource(c.Seed))
	nh, ln := 300, 40
	if c.Thorough() {
		nh, ln = 3000, 60
	}
	nontrivial := 0
	for i := 0; i < nh; i++ {
		hist := randHistoryS(r, ln)
		for _, a := range hist {
			if a.Op == "Add" || a.Op == "New" {
				s := cp(a.Xs)
				sort.Ints(s)
				for k := 1; k < len(s); k++ {
					if s[k] == s[k-1] {
						nontrivial++
						goto next
					}
				}
			}
		}
	next:
		if i == 0 {
			meta["B_sample"] = sKey(hist[:6])
		}
		w := set.Begin(sKey(hist), tr.E{"input": map[string]interface{}{"hist": hist}})
		runHistoryS(w, hist)
	}
	// lopsided operands: one set with 60..200 elements, one with 1..6 (size-dependent paths of the binary functions), both argument orders
	nlop := 120
	if c.Thorough() {
		nlop = 1200
	}
	for i := 0; i < nlop; i++ {
		span := 100 + r.Intn(300)
		big := map[int]bool{}
		for len(big) < 60+r.Intn(141) && len(big) < span {
			big[r.Intn(span)-span/4] = true
		}
		var bs, ss []int
		for v := range big {
			bs = append(bs, v)
		}
		sort.Ints(bs)
		for k := 0; k < 1+r.Intn(6); k++ {
			if r.Intn(2) == 0 {
				ss = append(ss, bs[r.Intn(len(bs))]) // a member
			} else {
				ss = append(ss, r.Intn(span)-span/4) // any value, often a non-member next to members
			}
		}
		hist := []SAct{{Op: "New", H: 1, Xs: bs, Z: i % 2}, {Op: "New", H: 2, Xs: ss, Z: (i / 2) % 2}}
		for _, f := range []string{"Union", "Intersection", "SetMinus", "XOR", "IntersectionSize", "ContainsSorted"} {
			hist = append(hist, SAct{Op: f, H: 1, H2: 2}, SAct{Op: f, H: 2, H2: 1})
		}
		hist = append(hist, SAct{Op: "UnionM", H: 2, H2: 1})
		w := set.Begin(sKey(hist), tr.E{"input": map[string]interface{}{"hist": hist}})
		runHistoryS(w, hist)
	}
	// the same algebra on values spread over the whole int range (differences of elements overflow): order-only operations, logged in abstract values
	nwide := 150
	if c.Thorough() {
		nwide = 1500
	}
	for i := 0; i < nwide; i++ {
		hist := wideHistoryS(r, 24)
		w := set.Begin("wide16:"+sKey(hist), tr.E{"input": map[string]interface{}{"hist": hist, "emb": "wide16"}})
		runHistoryE(w, hist, "wide16")
	}
	meta["B_wide_histories"] = nwide
	meta["B_lopsided_histories"] = nlop
	meta["B_histories"] = nh
	meta["B_nontrivial"] = nontrivial
	// Range: the whole grid, one call per segment
	rg := 6
	if c.Thorough() {
		rg = 12
	}
	nr := 0
	for s := -rg; s <= rg; s++ {
		for e := -rg; e <= rg; e++ {
			for st := -4; st <= 4; st++ {
				h := []SAct{{Op: "Range", X: s, Y: e, Z: st}}
				w := set.Begin(sKey(h), tr.E{"input": map[string]interface{}{"hist": h}})
				runHistoryS(w, h)
				nr++
			}
		}
	}
	meta["B_range_calls"] = nr
	ns := 0
	for _, in := range sortInputs(r, c.Thorough()) {
		h := []SAct{{Op: "Sort", Xs: in}}
		w := set.Begin(sKey(h), tr.E{"input": map[string]interface{}{"hist": h}})
		runHistoryS(w, h)
		ns++
	}
	// ints helpers: all pairs of sequences of length <= 2 over {-1,0,2} and seeded longer ones
	nh2 := 0
	small := tuples(-1, 1, 2)
	helper := func(op string, xs, ys []int) {
		h := []SAct{{Op: op, Xs: xs, Ys: ys}}
		w := set.Begin(fmt.Sprintf("%s(%v,%v)", op, xs, ys), tr.E{"input": map[string]interface{}{"hist": h}})
		runHistoryS(w, h)
		nh2++
	}
	for _, x := range small {
		for _, y := range small {
			helper("IntsEqual", x, y)
			helper("IntsCompare", x, y)
			helper("IntsHasPrefix", x, y)
			if len(x) == len(y) {
				helper("IntsAdd", x, y)
			}
		}
		if len(x) > 0 {
			helper("IntsMax", x, nil)
			helper("IntsMin", x, nil)
		}
		helper("IntsSum", x, nil)
		helper("IntsReverse", x, nil)
	}
	for i := 0; i < 200; i++ {
		n := 1 + r.Intn(9)
		x, y := make([]int, n), make([]int, n)
		for k := range x {
			x[k], y[k] = r.Intn(21)-10, r.Intn(21)-10
		}
		if i%3 == 0 {
			copy(y, x[:n/2+1])
		}
		op := []string{"IntsEqual", "IntsCompare", "IntsHasPrefix", "IntsAdd", "IntsMax", "IntsMin", "IntsSum", "IntsReverse"}[i%8]
		if op != "IntsAdd" {
			y = y[:1+r.Intn(n)]
		}
		helper(op, x, y)
	}
	meta["B_ints_helper_calls"] = nh2
	meta["B_sort_calls"] = ns
	_, meta["B_sort_adversary_reaches_heapsort"] = sortAdversary(600)
	finish()
}

func (a SAct) MarshalJSON() ([]byte, error) {
	type plain SAct
	if a.Xs == nil {
		a.Xs = []int{}
	}
	if a.Ys == nil {
		a.Ys = []int{}
	}
	return json.Marshal(plain(a))
}
