package main

// C03: graph/search.  For every n a segment: the plain search first, then every split modulus m
// (shards a = 0..m-1 run in parallel goroutines) and every hereditary predicate as preprune and as
// prune.  Everything yielded is logged for SearchTrace.tla.

import (
	"encoding/json"
	"fmt"
	"sync"

	"github.com/Tom-Johnston/mamba/graph"
	"github.com/Tom-Johnston/mamba/graph/search"

	"verifharness/internal/obs"
	"verifharness/internal/tr"
)

func init() { drivers["C03"] = driveC03 }

type searchRun struct {
	M     int    `json:"m"`
	Pred  string `json:"pred"`
	Place string `json:"place"` // none | pre | post
}
type searchSeg struct {
	N    int         `json:"n"`
	Runs []searchRun `json:"runs"`
	Big  string      `json:"big"` // non-empty: a large pruned search (predicate name) judged relationally, see runBig
	M    int         `json:"m"`   // Big == "count": the number of shards of the unpruned search whose yields are only counted
}

func (s searchSeg) key() string {
	if s.Big == "count" {
		return fmt.Sprintf("SearchCount(n=%d,m=%d)", s.N, s.M)
	}
	if s.Big != "" {
		return fmt.Sprintf("SearchBig(n=%d,%s)", s.N, s.Big)
	}
	return fmt.Sprintf("Search(n=%d,runs=%v)", s.N, s.Runs)
}

// ---- isomorphism of two graphs by backtracking (harness side; every witness it finds is re-checked by TLC) ----
type adjG struct {
	n   int
	adj [][]bool
	deg []int
}

func adjOf(y yieldJ) adjG {
	g := adjG{n: y.N, adj: make([][]bool, y.N), deg: make([]int, y.N)}
	for i := range g.adj {
		g.adj[i] = make([]bool, y.N)
	}
	for _, r := range y.E {
		i, j := obs.RankToPair(r)
		g.adj[i][j], g.adj[j][i] = true, true
		g.deg[i]++
		g.deg[j]++
	}
	return g
}

func (g adjG) invariant() string {
	keys := make([]string, g.n)
	for v := 0; v < g.n; v++ {
		nd := []int{}
		for u := 0; u < g.n; u++ {
			if g.adj[v][u] {
				nd = append(nd, g.deg[u])
			}
		}
		sortInts(nd)
		keys[v] = fmt.Sprint(g.deg[v], nd)
	}
	sortStrings(keys)
	return fmt.Sprint(keys)
}

func sortStrings(s []string) {
	for i := 1; i < len(s); i++ {
		for j := i; j > 0 && s[j] < s[j-1]; j-- {
			s[j], s[j-1] = s[j-1], s[j]
		}
	}
}

// isoPerm returns p with: vertex i of b corresponds to vertex p[i] of a (Relabel(a, p) = b), or nil.
func isoPerm(a, b adjG) []int {
	n := a.n
	p := make([]int, n)
	used := make([]bool, n)
	var rec func(i int) bool
	rec = func(i int) bool {
		if i == n {
			return true
		}
		for v := 0; v < n; v++ {
			if used[v] || a.deg[v] != b.deg[i] {
				continue
			}
			ok := true
			for j := 0; j < i; j++ {
				if a.adj[v][p[j]] != b.adj[i][j] {
					ok = false
					break
				}
			}
			if ok {
				used[v], p[i] = true, v
				if rec(i + 1) {
					return true
				}
				used[v] = false
			}
		}
		return false
	}
	if rec(0) {
		return p
	}
	return nil
}

// runCount: the m shards of the unpruned search on n vertices, in parallel goroutines; only the number of yields of every shard and the
// number of edges they carry are kept (12 005 168 graphs for n = 10). Judged against the known number of isomorphism classes.
func runCount(n, m int) tr.E {
	counts := make([]int, m)
	edges := make([]int, m)
	var wg sync.WaitGroup
	results := make([]string, m)
	for a := 0; a < m; a++ {
		wg.Add(1)
		go func(a int) {
			defer wg.Done()
			results[a] = obs.Safe(func() {
				it := search.All(n, a, m)
				for it.Next() {
					counts[a]++
					edges[a] += it.Value().M()
				}
			})
		}(a)
	}
	wg.Wait()
	res := "ok"
	for _, x := range results {
		if x != "ok" {
			res = x
		}
	}
	if n > 10 { // the edge sums no longer fit the 32-bit integers of TLC; the acceptor uses them for n <= 10 only
		edges = make([]int, m)
	}
	return tr.E{"ev": "Count", "n": n, "m": m, "pred": "none", "place": "none", "counts": counts, "edges": edges, "res": res}
}

// runBig: preprune / prune / sharded preprune at a size where TLC cannot canonise every graph.  Judged by:
// equal counts, every yield well formed and in the class (TLC), and no two yields isomorphic (harness finds
// candidates with isoPerm, TLC checks the witness).
func runBig(n int, pred string) tr.E {
	collect := func(r searchRun) ([]yieldJ, string) {
		e := runSearchRun(n, r)
		ys := []yieldJ{}
		for _, sh := range e["yields"].([][]yieldJ) {
			ys = append(ys, sh...)
		}
		return ys, e["res"].(string)
	}
	pre, r1 := collect(searchRun{M: 1, Pred: pred, Place: "pre"})
	post, r2 := collect(searchRun{M: 1, Pred: pred, Place: "post"})
	shd, r3 := collect(searchRun{M: 3, Pred: pred, Place: "pre"})
	res := "ok"
	for _, r := range []string{r1, r2, r3} {
		if r != "ok" {
			res = r
		}
	}
	dups := []tr.E{}
	for _, ys := range [][]yieldJ{pre, shd} {
		buckets := map[string][]int{}
		gs := make([]adjG, len(ys))
		for i, y := range ys {
			gs[i] = adjOf(y)
			k := gs[i].invariant()
			buckets[k] = append(buckets[k], i)
		}
		for _, idx := range buckets {
			for x := 0; x < len(idx) && len(dups) < 3; x++ {
				for y := x + 1; y < len(idx) && len(dups) < 3; y++ {
					if p := isoPerm(gs[idx[x]], gs[idx[y]]); p != nil {
						dups = append(dups, tr.E{"a": ys[idx[x]], "b": ys[idx[y]], "p": p})
					}
				}
			}
		}
	}
	return tr.E{"ev": "RunBig", "n": n, "m": 1, "pred": pred, "place": "pre", "yields": [][]yieldJ{pre}, "res": res,
		"counts": []int{len(pre), len(post), len(shd)}, "dups": dups}
}

var hereditary = map[string]func(g *graph.DenseGraph) bool{
	"trianglefree": func(g *graph.DenseGraph) bool {
		n := g.N()
		for a := 0; a < n; a++ {
			for b := a + 1; b < n; b++ {
				if !g.IsEdge(a, b) {
					continue
				}
				for c := b + 1; c < n; c++ {
					if g.IsEdge(a, c) && g.IsEdge(b, c) {
						return false
					}
				}
			}
		}
		return true
	},
	"maxdeg2": func(g *graph.DenseGraph) bool {
		for _, d := range g.Degrees() {
			if d > 2 {
				return false
			}
		}
		return true
	},
	"maxdeg1": func(g *graph.DenseGraph) bool {
		for _, d := range g.Degrees() {
			if d > 1 {
				return false
			}
		}
		return true
	},
	"nothing":   func(g *graph.DenseGraph) bool { return false },
	"order0":    func(g *graph.DenseGraph) bool { return g.N() <= 0 },
	"order1":    func(g *graph.DenseGraph) bool { return g.N() <= 1 },
	"order2":    func(g *graph.DenseGraph) bool { return g.N() <= 2 },
	"maxedges3": func(g *graph.DenseGraph) bool { return g.M() <= 3 },
	"k4free":    func(g *graph.DenseGraph) bool { return graph.CliqueNumber(g) < 4 },
	"bipartite": func(g *graph.DenseGraph) bool { ok, _ := graph.IsKColorable(g, 2); return ok || g.N() == 0 },
	"forest":    func(g *graph.DenseGraph) bool { return graph.Girth(g) == -1 },
	"clawfree": func(g *graph.DenseGraph) bool {
		n := g.N()
		for c := 0; c < n; c++ {
			nb := g.Neighbours(c)
			for i := 0; i < len(nb); i++ {
				for j := i + 1; j < len(nb); j++ {
					for k := j + 1; k < len(nb); k++ {
						if !g.IsEdge(nb[i], nb[j]) && !g.IsEdge(nb[i], nb[k]) && !g.IsEdge(nb[j], nb[k]) {
							return false
						}
					}
				}
			}
		}
		return true
	},
}

// hereditary classes that are NOT closed under adding an isolated vertex
func init() {
	hereditary["alpha2"] = func(g *graph.DenseGraph) bool { // no independent set of size 3
		n := g.N()
		for a := 0; a < n; a++ {
			for b := a + 1; b < n; b++ {
				for c := b + 1; c < n; c++ {
					if !g.IsEdge(a, b) && !g.IsEdge(a, c) && !g.IsEdge(b, c) {
						return false
					}
				}
			}
		}
		return true
	}
	hereditary["cmulti"] = func(g *graph.DenseGraph) bool { // complete multipartite: no induced K1 + K2
		n := g.N()
		for a := 0; a < n; a++ {
			for b := 0; b < n; b++ {
				for c := b + 1; c < n; c++ {
					if a != b && a != c && g.IsEdge(b, c) && !g.IsEdge(a, b) && !g.IsEdge(a, c) {
						return false
					}
				}
			}
		}
		return true
	}
	hereditary["cograph"] = func(g *graph.DenseGraph) bool { // no induced path on 4 vertices
		n := g.N()
		for a := 0; a < n; a++ {
			for b := 0; b < n; b++ {
				for c := 0; c < n; c++ {
					for d := 0; d < n; d++ {
						if a != b && a != c && a != d && b != c && b != d && c != d &&
							g.IsEdge(a, b) && g.IsEdge(b, c) && g.IsEdge(c, d) && !g.IsEdge(a, c) && !g.IsEdge(a, d) && !g.IsEdge(b, d) {
							return false
						}
					}
				}
			}
		}
		return true
	}
}

// brute-force twins of the three predicates that call library code (so that the predicate handed to the
// search does not itself depend on code under test elsewhere)
func init() {
	hereditary["k4free"] = func(g *graph.DenseGraph) bool {
		n := g.N()
		for a := 0; a < n; a++ {
			for b := a + 1; b < n; b++ {
				for c := b + 1; c < n; c++ {
					for d := c + 1; d < n; d++ {
						if g.IsEdge(a, b) && g.IsEdge(a, c) && g.IsEdge(a, d) && g.IsEdge(b, c) && g.IsEdge(b, d) && g.IsEdge(c, d) {
							return false
						}
					}
				}
			}
		}
		return true
	}
	hereditary["bipartite"] = func(g *graph.DenseGraph) bool {
		n := g.N()
		col := make([]int, n)
		for i := range col {
			col[i] = -1
		}
		for s := 0; s < n; s++ {
			if col[s] >= 0 {
				continue
			}
			col[s] = 0
			stack := []int{s}
			for len(stack) > 0 {
				v := stack[len(stack)-1]
				stack = stack[:len(stack)-1]
				for u := 0; u < n; u++ {
					if u != v && g.IsEdge(u, v) {
						if col[u] < 0 {
							col[u] = 1 - col[v]
							stack = append(stack, u)
						} else if col[u] == col[v] {
							return false
						}
					}
				}
			}
		}
		return true
	}
	hereditary["forest"] = func(g *graph.DenseGraph) bool {
		n := g.N()
		parent := make([]int, n)
		for i := range parent {
			parent[i] = i
		}
		var find func(int) int
		find = func(x int) int {
			for parent[x] != x {
				x = parent[x]
			}
			return x
		}
		for j := 0; j < n; j++ {
			for i := 0; i < j; i++ {
				if g.IsEdge(i, j) {
					a, b := find(i), find(j)
					if a == b {
						return false
					}
					parent[a] = b
				}
			}
		}
		return true
	}
}

type yieldJ struct {
	N   int   `json:"n"`
	E   []int `json:"e"`
	MM  int   `json:"mm"`
	Deg []int `json:"deg"`
}

func never(g *graph.DenseGraph) bool { return false }

func mkIterator(n, a, m int, r searchRun) *search.GraphIterator {
	if r.Pred == "none" {
		return search.All(n, a, m)
	}
	p := hereditary[r.Pred]
	rej := func(g *graph.DenseGraph) bool { return !p(g) }
	if r.Place == "pre" {
		return search.WithPruning(n, a, m, rej, never)
	}
	return search.WithPruning(n, a, m, never, rej)
}

func runSearchRun(n int, r searchRun) tr.E {
	yields := make([][]yieldJ, r.M)
	results := make([]string, r.M)
	var wg sync.WaitGroup
	for a := 0; a < r.M; a++ {
		wg.Add(1)
		go func(a int) {
			defer wg.Done()
			ys := []yieldJ{}
			results[a] = obs.Safe(func() {
				it := mkIterator(n, a, r.M, r)
				for it.Next() {
					g := it.Value()
					ys = append(ys, yieldJ{N: g.N(), E: ranksOf(g), MM: g.M(), Deg: cp(g.Degrees())})
					if len(ys) > 400000 {
						panic("more graphs than any grid point has")
					}
				}
				if it.Next() {
					panic("Next returned true again after it had returned false")
				}
			})
			yields[a] = ys
		}(a)
	}
	wg.Wait()
	res := "ok"
	for _, x := range results {
		if x != "ok" {
			res = x
		}
	}
	return tr.E{"ev": "Run", "n": n, "m": r.M, "pred": r.Pred, "place": r.Place, "yields": yields, "res": res, "count_only": false}
}

func searchGrid(c *Ctx) []searchSeg {
	maxN := 6
	if c.Thorough() {
		maxN = 7
	}
	preds := []string{"trianglefree", "maxdeg2", "forest", "k4free", "clawfree", "bipartite", "alpha2", "cmulti", "cograph",
		// degenerate hereditary classes: the empty class, classes bounded by the number of vertices (they exclude K1 / the null graph,
		// which the search treats in special cases), a class bounded by the number of edges
		"nothing", "order0", "order1", "order2", "maxedges3"}
	var segs []searchSeg
	for n := 0; n <= maxN; n++ {
		s := searchSeg{N: n, Runs: []searchRun{{M: 1, Pred: "none", Place: "none"}}}
		moduli := []int{2, 3, 4, 5, 6, 7, 8, 13}
		if n == 6 && !c.Thorough() {
			moduli = []int{2, 3, 5}
		}
		if n == 7 {
			moduli = []int{2, 5}
		}
		for _, m := range moduli {
			s.Runs = append(s.Runs, searchRun{M: m, Pred: "none", Place: "none"})
		}
		for i, p := range preds {
			s.Runs = append(s.Runs, searchRun{M: 1, Pred: p, Place: "pre"}, searchRun{M: 1, Pred: p, Place: "post"})
			s.Runs = append(s.Runs, searchRun{M: 2 + i%2, Pred: p, Place: []string{"pre", "post"}[i%2]})
		}
		// split into segments of at most 5 runs after the baseline so that the acceptors can work in parallel
		base := s.Runs[0]
		rest := s.Runs[1:]
		for len(rest) > 0 {
			k := 5
			if n <= 4 || k > len(rest) {
				k = len(rest)
			}
			segs = append(segs, searchSeg{N: n, Runs: append([]searchRun{base}, rest[:k]...)})
			rest = rest[k:]
		}
	}
	// larger sizes, pruned searches only (relational judgement)
	bigs := []searchSeg{{N: 8, Big: "trianglefree"}, {N: 9, Big: "trianglefree"}, {N: 10, Big: "trianglefree"}, {N: 9, Big: "forest"}, {N: 10, Big: "forest"},
		{N: 10, Big: "maxdeg2"}, {N: 11, Big: "maxdeg2"}, {N: 9, Big: "bipartite"}, {N: 8, Big: "cograph"}, {N: 8, Big: "alpha2"},
		// parents of more than 12 / 16 vertices (sort and bit-mask paths of the augmentation step), counts judged by closed forms
		{N: 13, Big: "maxdeg2"}, {N: 14, Big: "maxdeg1"}, {N: 18, Big: "maxdeg1"}, {N: 19, Big: "maxdeg1"},
		// cells of more than 20 vertices (merge phase of the refinement sort): at most 3 edges on 21 / 22 vertices, 9 classes
		{N: 21, Big: "maxedges3"}, {N: 22, Big: "maxedges3"},
		// complete multipartite graphs (as many as partitions of n): the edgeless graph and other highly symmetric graphs are labelled through
		// storage that larger and smaller graphs used before
		{N: 7, Big: "cmulti"}, {N: 8, Big: "cmulti"}, {N: 9, Big: "cmulti"}, {N: 10, Big: "cmulti"}, {N: 7, Big: "cograph"}, {N: 7, Big: "alpha2"},
		// the whole unpruned search on 9 and 10 vertices, counted (a parent is canonical-deleted through deep orbit forests only from n = 10 on)
		{N: 9, Big: "count", M: 5}, {N: 10, Big: "count", M: 16}}
	if c.Thorough() {
		bigs = append(bigs, searchSeg{N: 11, Big: "forest"}, searchSeg{N: 12, Big: "maxdeg2"}, searchSeg{N: 10, Big: "bipartite"}, searchSeg{N: 9, Big: "cograph"}, searchSeg{N: 11, Big: "trianglefree"},
			searchSeg{N: 14, Big: "maxdeg2"}, searchSeg{N: 15, Big: "maxdeg2"}, searchSeg{N: 22, Big: "maxdeg1"}, searchSeg{N: 33, Big: "maxdeg1"}, searchSeg{N: 11, Big: "count", M: 16})
	}
	segs = append(segs, bigs...)
	return segs
}

func driveC03(c *Ctx) {
	set := tr.NewSet(c.Out, "trace", c.Shards)
	meta := map[string]interface{}{}
	finish := func() {
		meta["segments"] = set.Segs
		meta["events"] = set.Close()
		tr.WriteJSON(c.Out+"/meta.json", meta)
	}
	var segs []searchSeg
	if c.In != "" {
		for _, raw := range readInputs(c.In) {
			var s searchSeg
			if err := json.Unmarshal(raw, &s); err != nil {
				panic(err)
			}
			segs = append(segs, s)
		}
	} else {
		segs = searchGrid(c)
	}
	runs := 0
	for _, s := range segs {
		w := set.Begin(s.key(), tr.E{"input": s})
		if s.Big == "count" {
			w.Emit(runCount(s.N, s.M))
			runs++
			continue
		}
		if s.Big != "" {
			w.Emit(runBig(s.N, s.Big))
			runs++
			continue
		}
		for _, r := range s.Runs {
			w.Emit(runSearchRun(s.N, r))
			runs++
		}
	}
	meta["runs"] = runs
	finish()
}
