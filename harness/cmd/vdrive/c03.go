package main

// C03: graph/search.  For every n a segment: the plain search first, then every split modulus m
// (shards a = 0..m-1 run in parallel goroutines) and every hereditary predicate as preprune and as
// prune.  Everything yielded is logged for SearchTrace.tla.

import (
	"encoding/json"
	"fmt"
	"sync"

	"github.com/Tom-Johnston/mamba/graph"
	"github.com/Tom-Johnston/mamba/graph/search"

	"verifharness/internal/obs"
	"verifharness/internal/tr"
)

func init() { drivers["C03"] = driveC03 }

type searchRun struct {
	M     int    `json:"m"`
	Pred  string `json:"pred"`
	Place string `json:"place"` // none | pre | post
}
type searchSeg struct {
	N    int         `json:"n"`
	Runs []searchRun `json:"runs"`
}

func (s searchSeg) key() string { return fmt.Sprintf("Search(n=%d,runs=%v)", s.N, s.Runs) }

var hereditary = map[string]func(g *graph.DenseGraph) bool{
	"trianglefree": func(g *graph.DenseGraph) bool {
		n := g.N()
		for a := 0; a < n; a++ {
			for b := a + 1; b < n; b++ {
				if !g.IsEdge(a, b) {
					continue
				}
				for c := b + 1; c < n; c++ {
					if g.IsEdge(a, c) && g.IsEdge(b, c) {
						return false
					}
				}
			}
		}
		return true
	},
	"maxdeg2": func(g *graph.DenseGraph) bool {
		for _, d := range g.Degrees() {
			if d > 2 {
				return false
			}
		}
		return true
	},
	"k4free":    func(g *graph.DenseGraph) bool { return graph.CliqueNumber(g) < 4 },
	"bipartite": func(g *graph.DenseGraph) bool { ok, _ := graph.IsKColorable(g, 2); return ok || g.N() == 0 },
	"forest":    func(g *graph.DenseGraph) bool { return graph.Girth(g) == -1 },
	"clawfree": func(g *graph.DenseGraph) bool {
		n := g.N()
		for c := 0; c < n; c++ {
			nb := g.Neighbours(c)
			for i := 0; i < len(nb); i++ {
				for j := i + 1; j < len(nb); j++ {
					for k := j + 1; k < len(nb); k++ {
						if !g.IsEdge(nb[i], nb[j]) && !g.IsEdge(nb[i], nb[k]) && !g.IsEdge(nb[j], nb[k]) {
							return false
						}
					}
				}
			}
		}
		return true
	},
}

// brute-force twins of the three predicates that call library code (so that the predicate handed to the
// search does not itself depend on code under test elsewhere)
func init() {
	hereditary["k4free"] = func(g *graph.DenseGraph) bool {
		n := g.N()
		for a := 0; a < n; a++ {
			for b := a + 1; b < n; b++ {
				for c := b + 1; c < n; c++ {
					for d := c + 1; d < n; d++ {
						if g.IsEdge(a, b) && g.IsEdge(a, c) && g.IsEdge(a, d) && g.IsEdge(b, c) && g.IsEdge(b, d) && g.IsEdge(c, d) {
							return false
						}
					}
				}
			}
		}
		return true
	}
	hereditary["bipartite"] = func(g *graph.DenseGraph) bool {
		n := g.N()
		col := make([]int, n)
		for i := range col {
			col[i] = -1
		}
		for s := 0; s < n; s++ {
			if col[s] >= 0 {
				continue
			}
			col[s] = 0
			stack := []int{s}
			for len(stack) > 0 {
				v := stack[len(stack)-1]
				stack = stack[:len(stack)-1]
				for u := 0; u < n; u++ {
					if u != v && g.IsEdge(u, v) {
						if col[u] < 0 {
							col[u] = 1 - col[v]
							stack = append(stack, u)
						} else if col[u] == col[v] {
							return false
						}
					}
				}
			}
		}
		return true
	}
	hereditary["forest"] = func(g *graph.DenseGraph) bool {
		n := g.N()
		parent := make([]int, n)
		for i := range parent {
			parent[i] = i
		}
		var find func(int) int
		find = func(x int) int {
			for parent[x] != x {
				x = parent[x]
			}
			return x
		}
		for j := 0; j < n; j++ {
			for i := 0; i < j; i++ {
				if g.IsEdge(i, j) {
					a, b := find(i), find(j)
					if a == b {
						return false
					}
					parent[a] = b
				}
			}
		}
		return true
	}
}

type yieldJ struct {
	N   int   `json:"n"`
	E   []int `json:"e"`
	MM  int   `json:"mm"`
	Deg []int `json:"deg"`
}

func never(g *graph.DenseGraph) bool { return false }

func mkIterator(n, a, m int, r searchRun) *search.GraphIterator {
	if r.Pred == "none" {
		return search.All(n, a, m)
	}
	p := hereditary[r.Pred]
	rej := func(g *graph.DenseGraph) bool { return !p(g) }
	if r.Place == "pre" {
		return search.WithPruning(n, a, m, rej, never)
	}
	return search.WithPruning(n, a, m, never, rej)
}

func runSearchRun(n int, r searchRun) tr.E {
	yields := make([][]yieldJ, r.M)
	results := make([]string, r.M)
	var wg sync.WaitGroup
	for a := 0; a < r.M; a++ {
		wg.Add(1)
		go func(a int) {
			defer wg.Done()
			ys := []yieldJ{}
			results[a] = obs.Safe(func() {
				it := mkIterator(n, a, r.M, r)
				for it.Next() {
					g := it.Value()
					ys = append(ys, yieldJ{N: g.N(), E: ranksOf(g), MM: g.M(), Deg: cp(g.Degrees())})
					if len(ys) > 400000 {
						panic("more graphs than any grid point has")
					}
				}
				if it.Next() {
					panic("Next returned true again after it had returned false")
				}
			})
			yields[a] = ys
		}(a)
	}
	wg.Wait()
	res := "ok"
	for _, x := range results {
		if x != "ok" {
			res = x
		}
	}
	return tr.E{"ev": "Run", "n": n, "m": r.M, "pred": r.Pred, "place": r.Place, "yields": yields, "res": res, "count_only": false}
}

func searchGrid(c *Ctx) []searchSeg {
	maxN, maxM := 6, 3
	if c.Thorough() {
		maxN, maxM = 7, 5
	}
	preds := []string{"trianglefree", "maxdeg2", "forest", "k4free", "clawfree", "bipartite"}
	var segs []searchSeg
	for n := 0; n <= maxN; n++ {
		s := searchSeg{N: n, Runs: []searchRun{{M: 1, Pred: "none", Place: "none"}}}
		for m := 2; m <= maxM; m++ {
			s.Runs = append(s.Runs, searchRun{M: m, Pred: "none", Place: "none"})
		}
		for i, p := range preds {
			s.Runs = append(s.Runs, searchRun{M: 1, Pred: p, Place: "pre"}, searchRun{M: 1, Pred: p, Place: "post"})
			s.Runs = append(s.Runs, searchRun{M: 2 + i%2, Pred: p, Place: []string{"pre", "post"}[i%2]})
		}
		// split into segments of at most 5 runs after the baseline so that the acceptors can work in parallel
		base := s.Runs[0]
		rest := s.Runs[1:]
		for len(rest) > 0 {
			k := 5
			if n <= 4 || k > len(rest) {
				k = len(rest)
			}
			segs = append(segs, searchSeg{N: n, Runs: append([]searchRun{base}, rest[:k]...)})
			rest = rest[k:]
		}
	}
	return segs
}

func driveC03(c *Ctx) {
	set := tr.NewSet(c.Out, "trace", c.Shards)
	meta := map[string]interface{}{}
	finish := func() {
		meta["segments"] = set.Segs
		meta["events"] = set.Close()
		tr.WriteJSON(c.Out+"/meta.json", meta)
	}
	var segs []searchSeg
	if c.In != "" {
		for _, raw := range readInputs(c.In) {
			var s searchSeg
			if err := json.Unmarshal(raw, &s); err != nil {
				panic(err)
			}
			segs = append(segs, s)
		}
	} else {
		segs = searchGrid(c)
	}
	runs := 0
	for _, s := range segs {
		w := set.Begin(s.key(), tr.E{"input": s})
		for _, r := range s.Runs {
			w.Emit(runSearchRun(s.N, r))
			runs++
		}
	}
	meta["runs"] = runs
	finish()
}
