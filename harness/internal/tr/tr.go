// Package tr writes ndjson traces, one event per line.
package tr

import (
	"bufio"
	"bytes"
	"encoding/json"
	"os"
)

type E map[string]interface{}

type W struct {
	f   *os.File
	b   *bufio.Writer
	N   int
	Seg int
}

func Create(path string) *W {
	f, err := os.Create(path)
	if err != nil {
		panic(err)
	}
	return &W{f: f, b: bufio.NewWriterSize(f, 1<<20)}
}

func (w *W) Emit(e E) {
	if _, ok := e["seg"]; !ok {
		e["seg"] = w.Seg
	}
	bs, err := json.Marshal(e)
	if err != nil {
		panic(err)
	}
	if bytes.Contains(bs, []byte("null")) {
		// TLC's JSON reader rejects null: every nil slice / map becomes an empty array
		var v interface{}
		d := json.NewDecoder(bytes.NewReader(bs))
		d.UseNumber()
		if err := d.Decode(&v); err != nil {
			panic(err)
		}
		bs, _ = json.Marshal(denull(v))
	}
	w.b.Write(bs)
	w.b.WriteByte('\n')
	w.N++
}

// Reset starts a new independent segment with the given stable key.
func (w *W) Reset(key string, extra E) {
	w.Seg++
	e := E{"ev": "Reset", "seg": w.Seg, "key": key}
	for k, v := range extra {
		e[k] = v
	}
	w.Emit(e)
}

func (w *W) Close() {
	w.b.Flush()
	w.f.Close()
}

func WriteJSON(path string, v interface{}) {
	bs, err := json.MarshalIndent(v, "", " ")
	if err != nil {
		panic(err)
	}
	if err := os.WriteFile(path, bs, 0o644); err != nil {
		panic(err)
	}
}

func ReadJSON(path string, v interface{}) {
	bs, err := os.ReadFile(path)
	if err != nil {
		panic(err)
	}
	if err := json.Unmarshal(bs, v); err != nil {
		panic(err)
	}
}

// Set is a group of shard files; each segment goes wholly into one shard and gets a globally
// unique segment number, so that the shards can be validated by parallel TLC processes.
type Set struct {
	Dir    string
	Prefix string
	ws     []*W
	next   int
	Segs   int
}

func NewSet(dir, prefix string, shards int) *Set {
	s := &Set{Dir: dir, Prefix: prefix}
	for i := 0; i < shards; i++ {
		s.ws = append(s.ws, Create(dir+"/"+prefix+"-"+itoa2(i)+".ndjson"))
	}
	return s
}

func itoa2(i int) string { return string([]byte{byte('0' + i/10), byte('0' + i%10)}) }

// Begin opens a new segment and returns the writer its events must go to.
func (s *Set) Begin(key string, extra E) *W {
	w := s.ws[s.next%len(s.ws)]
	s.next++
	s.Segs++
	w.Seg = s.Segs
	e := E{"ev": "Reset", "seg": s.Segs, "key": key}
	for k, v := range extra {
		e[k] = v
	}
	w.Emit(e)
	return w
}

func (s *Set) Close() (events int) {
	for _, w := range s.ws {
		events += w.N
		w.Close()
	}
	return
}

func denull(v interface{}) interface{} {
	switch t := v.(type) {
	case nil:
		return []interface{}{}
	case map[string]interface{}:
		for k, x := range t {
			t[k] = denull(x)
		}
		return t
	case []interface{}:
		for i, x := range t {
			t[i] = denull(x)
		}
		return t
	}
	return v
}
