// Package obs projects mamba values onto the abstract observations the TLA+
// specifications talk about.  Only public API is used.
package obs

import (
	"fmt"
	"runtime"
	"time"

	"github.com/Tom-Johnston/mamba/graph"
)

// Obs is the full observation of a graph through the Graph interface.
type Obs struct {
	N   int     `json:"n"`
	M   int     `json:"m"`
	Deg []int   `json:"deg"`
	Nbr [][]int `json:"nbr"`
	Adj [][]int `json:"adj"`
}

func nn(s []int) []int {
	if s == nil {
		return []int{}
	}
	return s
}

// Of observes g through N, M, Degrees, Neighbours and IsEdge on all ordered pairs
// (diagonal included).  IsEdge is never called out of range.
func Of(g graph.Graph) Obs {
	n := g.N()
	o := Obs{N: n, M: g.M(), Deg: nn(append([]int{}, g.Degrees()...)), Nbr: make([][]int, n), Adj: make([][]int, n)}
	for i := 0; i < n; i++ {
		o.Nbr[i] = nn(append([]int{}, g.Neighbours(i)...))
		o.Adj[i] = make([]int, n)
		for j := 0; j < n; j++ {
			if g.IsEdge(i, j) {
				o.Adj[i][j] = 1
			}
		}
	}
	return o
}

// PanicString classifies a recovered value: "crash:" for runtime errors (index out of
// range, nil dereference, makeslice ...), "refuse:" for a panic raised by the code's own check.
func PanicString(r interface{}) string {
	if _, ok := r.(runtime.Error); ok {
		return fmt.Sprintf("crash:%v", r)
	}
	return fmt.Sprintf("refuse:%v", r)
}

// Safe runs f and returns "ok" or the classified panic.
func Safe(f func()) (res string) {
	defer func() {
		if r := recover(); r != nil {
			res = PanicString(r)
		}
	}()
	f()
	return "ok"
}

// SafeOf observes g, turning a panic in an observer into a result string.
func SafeOf(g graph.Graph) (o Obs, res string) {
	res = Safe(func() { o = Of(g) })
	if res != "ok" {
		o = Obs{N: -1, Deg: []int{}, Nbr: [][]int{}, Adj: [][]int{}}
	}
	return
}

// RankToPair inverts the dense edge order 01,02,12,03,...: rank = j(j-1)/2 + i, i<j.
func RankToPair(r int) (i, j int) {
	j = 1
	for (j+1)*j/2 <= r {
		j++
	}
	return r - j*(j-1)/2, j
}

// PairToRank is the inverse of RankToPair.
func PairToRank(i, j int) int {
	if i > j {
		i, j = j, i
	}
	return j*(j-1)/2 + i
}

// Expected builds the observation the specification prescribes for the graph (n, edge ranks).
func Expected(n int, ranks []int) Obs {
	o := Obs{N: n, M: len(ranks), Deg: make([]int, n), Nbr: make([][]int, n), Adj: make([][]int, n)}
	for i := range o.Adj {
		o.Adj[i] = make([]int, n)
		o.Nbr[i] = []int{}
	}
	for _, r := range ranks {
		i, j := RankToPair(r)
		o.Adj[i][j], o.Adj[j][i] = 1, 1
	}
	for i := 0; i < n; i++ {
		for j := 0; j < n; j++ {
			if o.Adj[i][j] == 1 {
				o.Deg[i]++
				o.Nbr[i] = append(o.Nbr[i], j)
			}
		}
	}
	return o
}

func eqInts(a, b []int) bool {
	if len(a) != len(b) {
		return false
	}
	for i := range a {
		if a[i] != b[i] {
			return false
		}
	}
	return true
}

// Diff names the first observer in which two observations differ ("" if equal).
func Diff(got, want Obs) string {
	if got.N != want.N {
		return "N"
	}
	if len(got.Adj) != len(want.Adj) {
		return "shape"
	}
	for i := range got.Adj {
		if !eqInts(got.Adj[i], want.Adj[i]) {
			return "IsEdge"
		}
	}
	if got.M != want.M {
		return "M"
	}
	if !eqInts(got.Deg, want.Deg) {
		return "Degrees"
	}
	for i := range got.Nbr {
		if !eqInts(got.Nbr[i], want.Nbr[i]) {
			return "Neighbours"
		}
	}
	return ""
}

// Ranks returns the ascending edge ranks of an observation's adjacency (lower triangle).
func (o Obs) Ranks() []int {
	r := []int{}
	for j := 0; j < o.N; j++ {
		for i := 0; i < j; i++ {
			if o.Adj[i][j] == 1 {
				r = append(r, PairToRank(i, j))
			}
		}
	}
	return r
}

// SafeT is Safe with a watchdog: if f has not returned after d the call is abandoned (its
// goroutine keeps running until the process exits) and "timeout" is returned.  Used where a
// defect could turn into an endless loop; a timeout is confirmed by replay before it is reported.
func SafeT(d time.Duration, f func()) string {
	done := make(chan string, 1)
	go func() { done <- Safe(f) }()
	select {
	case r := <-done:
		return r
	case <-time.After(d):
		return "timeout"
	}
}
