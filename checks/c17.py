"""C17 - SortedInts implements finite-set algebra; ints.Sort sorts."""
import json
import os
import vlib

MOD = "c17_sets/SortedIntsMC"
ACC, ACC_CFG = "c17_sets/SortedIntsTrace", "c17_sets/SortedIntsTrace.cfg"


def run(ctx):
    big = ctx.thorough
    sfx = "T.cfg" if big else ".cfg"
    ctx.model(MOD, "c17_sets/SortedInts_mc" + sfx, extra=(["-coverage", "1"] if big else []))
    gen = os.path.join(ctx.work, "gen.out")
    g = ctx.tlc(MOD, "c17_sets/SortedInts_gen" + sfx, workers=1, outfile=gen, heap="8g")
    out = ctx.sub("drive")
    meta = ctx.drive(out, gen=gen, shards=16)
    if not meta.get("timed_out") and meta.get("A_transitions_replayed", 0) != g["generated"] - 1:
        raise vlib.Infra("replayed %s transitions, TLC generated %s" % (meta.get("A_transitions_replayed"), g["generated"] - 1))
    ctx.candidates += json.load(open(os.path.join(out, "replayA.json")))
    traces = vlib.glob_traces(out)
    bad, st = ctx.accept(ACC, ACC_CFG, traces)
    if st.get("segs", 0) != meta["segments"]:
        raise vlib.Infra("acceptor saw %s segments, driver wrote %s" % (st.get("segs"), meta["segments"]))
    vlib.add_bad_segments(ctx, traces, bad)
    ctx.cov.update(
        evaluations=meta["A_steps"] + st.get("ops", 0),
        distinct_nontrivial=g["generated"] - 1 + st.get("dupargs", 0),
        traces_validated_against_impl=meta["A_transitions_replayed"] + st.get("segs", 0),
        rule="A: every transition of SortedInts.tla (2 handles, universe of %d ints, every argument list of length <=3 incl. unsorted/repeated/"
             "already-present, receivers with and without spare capacity) replayed from a shortest history, result and all handles compared. "
             "B: random histories (3 handles, lists <=8, wide values), the Range grid, ints.Sort inputs (all sequences <=6 over {0,1,2}, "
             "organ-pipe/sawtooth/random up to %d) validated by SortedIntsTrace.tla. Non-trivial = distinct spec transitions + logged "
             "Add/New calls whose argument list has a repeat." % (5 if big else 4, 5000 if big else 1000),
        samples=[meta.get("B_sample"), "h1=New([0]);h1.Add([0 0])", "Range(10,0,-3)"],
        exhaustive=True, acceptor_stats=st, driver_meta=meta)
    ctx.assumptions += ["Range(start,end,step) = {start+i*step, i>=0} from start (inclusive) towards end (exclusive); where step does not lead from start to end the documented 'Infinite set' panic is required",
                        "ints.Sort inputs restricted to <=12 distinct values above length 6 (bag comparison cost in TLC)"]
    return vlib.finish(ctx, vlib.standard_confirm(ctx, ACC, ACC_CFG))


def replay(ctx, rp):
    ctx.candidates.append(dict(key=rp["key"], why=rp.get("why", ""), input=rp["input"]))
    return vlib.standard_confirm(ctx, ACC, ACC_CFG)(ctx.candidates)
