"""C02 - orbits and generators returned with the canonical form describe exactly Aut(g)."""
import vlib

ACC, ACC_CFG = "c01_canon/CanonTrace", "c01_canon/CanonTrace.cfg"
PID = "C02"


def run(ctx):
    big = ctx.thorough
    ctx.model("c01_canon/CanonMC", "c01_canon/Canon_mc.cfg")
    out = ctx.sub("drive")
    meta = ctx.drive(out, shards=16, timeout=6000)
    traces = vlib.glob_traces(out)
    bad, st = ctx.accept(ACC, ACC_CFG, traces, heap="5g", timeout=3000)
    if st.get("segs", 0) != meta["segments"] or st.get("fulls", 0) == 0:
        raise vlib.Infra("acceptor saw %s segments / %s full calls, driver wrote %s" % (st.get("segs"), st.get("fulls"), meta["segments"]))
    vlib.add_bad_segments(ctx, traces, bad, truncate_hist=False)
    ctx.cov.update(
        evaluations=st.get("fulls", 0) + st.get("relabellings", 0), distinct_nontrivial=st.get("nontrivial", 0),
        traces_validated_against_impl=st.get("segs", 0),
        rule="design: Canon.tla invariants FinalOrbits and GensGenerate (orbits/closure of the recorded automorphisms = Aut(G)) for all labelled "
             "graphs N=4. Code: CanonicalIsomorphFull on all labelled graphs n<=5, every class n=6,7 under a seeded relabelling, sampled classes n=8, "
             "hard graphs; every ordered partition into vertex classes for all graphs n<=4 and sampled n=5,6 (incl. canonical form of (g,C) over all "
             "relabellings); sequences of graphs of sizes {0,1,2,3,5,8} and kinds {edgeless, complete, cycle, random} through ONE reused "
             "CanonicalStorage/CanonicalOrderedPartition incl. every (previous size, next size) pair, each also computed fresh. CanonTrace.tla "
             "computes Aut(g) (class-preserving when classes are given) by brute force for n<=8 and requires: generators are automorphisms, returned "
             "orbits = orbits of Aut, |<generators>| = |Aut|, reused = fresh. Non-trivial = calls that returned at least one generator.",
        samples=["Full[c6-classes](n=6,...,classes=[[0] [1 2 3 4 5]])", "Reuse[pair](cap=8,seq=[{n=8,..} {n=3,..} {n=8,..}])", "Full[petersen](...)"],
        exhaustive=False, acceptor_stats=st, inputs=meta.get("inputs"))
    ctx.assumptions += ["for n>8 Aut(g) is not enumerated: only 'generators are automorphisms' and 'returned orbits = orbits of the generators' are judged",
                        "generators need not be minimal; orbits are compared as a partition"]
    return vlib.finish(ctx, vlib.standard_confirm(ctx, ACC, ACC_CFG, pid=PID))


def replay(ctx, rp):
    ctx.candidates.append(dict(key=rp["key"], why=rp.get("why", ""), input=rp["input"]))
    return vlib.standard_confirm(ctx, ACC, ACC_CFG, pid=PID)(ctx.candidates)
