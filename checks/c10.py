"""C10 - distance, connectivity and cycle-structure invariants equal their definitions."""
import c09

WHAT = ("Distance on all vertex pairs, Eccentricity, Diameter, Radius, Girth, ConnectedComponent of every vertex, ConnectedComponents, "
        "BiconnectedComponents (blocks and articulation vertices), NumberOfCycles, NumberOfInducedCycles and NumberOfInducedPaths for every "
        "length bound in -1..n+1")


def run(ctx):
    return c09.run(ctx, pid="C10", what=WHAT)


def replay(ctx, rp):
    return c09.replay(ctx, rp, pid="C10")
