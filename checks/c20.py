"""C20 - TSPLIB output is well formed, faithful, and write failures are reported."""
import vlib

ACC, ACC_CFG = "c20_tsp/TspLibTrace", "c20_tsp/TspLibTrace.cfg"


def run(ctx):
    ctx.level = "fault_enumeration"
    ctx.model("c20_tsp/TspLib", "c20_tsp/TspLib_mc.cfg", workers=4)
    # the design model must be able to exhibit the defect class: with CheckFlush = FALSE TLC refutes ReportsFailure
    ctx.tlc("c20_tsp/TspLib", "c20_tsp/TspLib_witness.cfg", workers=4, allow=(12,))
    out = ctx.sub("drive")
    meta = ctx.drive(out, shards=16)
    traces = vlib.glob_traces(out)
    bad, st = ctx.accept(ACC, ACC_CFG, traces)
    if st.get("segs", 0) != meta["segments"] or (not bad and st.get("rets", 0) != meta["segments"]):
        raise vlib.Infra("acceptor saw %s segments / %s returns, driver wrote %s" % (st.get("segs"), st.get("rets"), meta["segments"]))
    # the acceptors count distinct plans per shard (a plan traced twice may fall into one shard or two)
    if not bad and not (meta["plans_distinct"] <= st.get("plans", 0) <= meta["plans"]):
        raise vlib.Infra("required fault plans %s, distinct plans validated %s" % (meta["plans"], st.get("plans")))
    vlib.add_bad_segments(ctx, traces, bad)
    ctx.cov.update(
        evaluations=meta["plans"], distinct_nontrivial=meta["plans_with_fault_in_weight_section"],
        traces_validated_against_impl=st.get("segs", 0),
        rule="for every n in 0..%d and weight function in {i+j, negative, +-(2^31-1), 2^40+i-j, 10i+j}: a fault-free run learns the number W of Write "
             "calls, then every position 1..W+1 x {fail (0 bytes+error), short (half+error), full (all bytes+error)} x {transient, permanent} is executed; every Write, every "
             "weights(i,j) call and the result are validated by TspLibTrace.tla (writer model of TspLib.tla; tokens of the accepted bytes, line by "
             "line, against the LOWER_DIAG_ROW layout). Plus fault-free and spot-fault runs for n up to 90 (200 thorough). Non-trivial = plans whose fault lies inside the weight section." % (9 if ctx.thorough else 6),
        samples=["LIB(n=3,w=sum,at=4,kind=fail,perm=false)", "LIB(n=6,w=huge,at=17,kind=short,perm=true)"],
        exhaustive=True, acceptor_stats=st, writes_per_config=meta["writes_per_config"])
    ctx.assumptions += ["whitespace/alignment is not compared (tokens per line only)", "a short count without an error breaks io.Writer's contract and is not in the family"]
    return vlib.finish(ctx, vlib.standard_confirm(ctx, ACC, ACC_CFG))


def replay(ctx, rp):
    ctx.candidates.append(dict(key=rp["key"], why=rp.get("why", ""), input=rp["input"]))
    return vlib.standard_confirm(ctx, ACC, ACC_CFG)(ctx.candidates)
