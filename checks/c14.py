"""C14 - DAWG serialisation round-trips to a behaviourally identical automaton."""
import vlib

ACC, ACC_CFG = "c12_dawg/DawgTrace", "c12_dawg/DawgTrace.cfg"
PID = "C14"


def run(ctx):
    ctx.level = "exploration"
    # the varint rule of the grammar is checked on its boundary values by TLC (ASSUMEs of DawgCodec.tla)
    ctx.model("c12_dawg/DawgCodecMC", "c12_dawg/DawgCodec_mc.cfg", workers=2)
    out = ctx.sub("drive")
    meta = ctx.drive(out, shards=16)
    traces = vlib.glob_traces(out)
    bad, st = ctx.accept(ACC, ACC_CFG, traces, heap="4g")
    if st.get("segs", 0) != meta["segments"] or st.get("gobs", 0) == 0:
        raise vlib.Infra("acceptor saw %s segments / %s gob events, driver wrote %s" % (st.get("segs"), st.get("gobs"), meta["segments"]))
    vlib.add_bad_segments(ctx, traces, bad)
    ctx.cov.update(
        evaluations=st.get("gobs", 0), distinct_nontrivial=st.get("parsed", 0),
        traces_validated_against_impl=st.get("segs", 0),
        rule="for every Dawg of the C12 families flagged for serialisation (boundary sets, random sets over small and wide byte alphabets, nodes "
             "with 1,2,127,128,129,200,255,256 children, dictionary samples with >127 nodes and words): b1=GobEncode(d), d2=GobDecode(b1), "
             "d3 through encoding/gob, b2=GobEncode(d2); DawgTrace.tla requires identical node tables (ids, numWords, links), word count, lookups, "
             "b1=b2, and that b1 parses under the independent grammar reader of DawgCodec.tla to a correct minimal automaton of the word set. "
             "Non-trivial = streams short enough (<=6000 bytes) to be parsed by the specification's reader.",
        samples=["dawg[fan200](...)", "dawg[crosswd-consecutive](...)", 'dawg[emptyword]("")'],
        exhaustive=False, acceptor_stats=st, families=meta.get("families"))
    ctx.assumptions += ["search results on the decoded automaton are covered through equality of the node tables (C13 decides search on a table)"]
    return vlib.finish(ctx, vlib.standard_confirm(ctx, ACC, ACC_CFG, pid=PID))


def replay(ctx, rp):
    ctx.candidates.append(dict(key=rp["key"], why=rp.get("why", ""), input=rp["input"]))
    return vlib.standard_confirm(ctx, ACC, ACC_CFG, pid=PID)(ctx.candidates)
