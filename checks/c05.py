"""C05 - editable graphs behave as an abstract simple graph under every edit history."""
import os
import vlib

MOD, GEN_CFG, MC_CFG = "c05_edit/EditGraphMC", "c05_edit/EditGraph_gen.cfg", "c05_edit/EditGraph_mc.cfg"
ACC, ACC_CFG = "c05_edit/EditGraphTrace", "c05_edit/EditGraphTrace.cfg"


def run(ctx):
    big = ctx.thorough
    mc = ctx.model(MOD, "c05_edit/EditGraph_mc4.cfg" if big else MC_CFG, extra=(["-coverage", "1"] if big else []))
    gen = os.path.join(ctx.work, "gen.out")
    g = ctx.tlc(MOD, "c05_edit/EditGraph_gen4.cfg" if big else GEN_CFG, workers=1, outfile=gen, heap="8g")
    out = ctx.sub("drive")
    meta = ctx.drive(out, gen=gen, shards=16)
    if not meta.get("timed_out") and meta.get("A_transitions_replayed", 0) != 2 * (g["generated"] - 1):
        raise vlib.Infra("replayed %s transitions, TLC generated %s" % (meta.get("A_transitions_replayed"), g["generated"] - 1))
    import json
    for m in json.load(open(os.path.join(out, "replayA.json"))):
        ctx.candidates.append(m)
    traces = vlib.glob_traces(out)
    bad, st = ctx.accept(ACC, ACC_CFG, traces)
    if st.get("segs", 0) != meta["segments"]:
        raise vlib.Infra("acceptor saw %s segments, driver wrote %s" % (st.get("segs"), meta["segments"]))
    vlib.add_bad_segments(ctx, traces, bad)
    ctx.cov.update(
        evaluations=meta["A_steps"] + st.get("ops", 0),
        distinct_nontrivial=meta["B_nontrivial_histories"] + g["generated"] - 1,
        traces_validated_against_impl=meta["A_transitions_replayed"] + st.get("segs", 0),
        rule="A: every transition of EditGraph.tla's state graph (2 handles, MaxN=%d; TLC dump) replayed from a shortest genuine history on "
             "DenseGraph and SparseGraph, all live handles observed (N, M, IsEdge on all ordered pairs, Neighbours, Degrees) after each action. "
             "B: seeded random histories (3 handles, n<=%d) validated step by step by EditGraphTrace.tla. Non-trivial = distinct spec transitions "
             "+ random histories containing RemoveVertex or InducedSubgraph." % (4 if big else 3, 9 if big else 7),
        samples=[meta.get("B_sample"), "A: transition dump lines such as {f:[{n:3,e:[1]},{n:2,e:[0]}], a:{op:RemoveVertex,h:1,v:0}, t:[...]}"],
        exhaustive=True,
        acceptor_stats=st, driver_meta=meta)
    ctx.assumptions += ["TLC evaluates the TLA+ operators of lib/Graphs.tla correctly",
                        "valid arguments only: vertices in range, neighbour lists duplicate-free (the quantifier of C05)"]
    return vlib.finish(ctx, vlib.standard_confirm(ctx, ACC, ACC_CFG))


def replay(ctx, rp):
    ctx.candidates.append(dict(key=rp["key"], why=rp.get("why", ""), input=rp["input"]))
    return vlib.standard_confirm(ctx, ACC, ACC_CFG)(ctx.candidates)
