"""C15 - iterators enumerate exactly the advertised objects, once each, in order."""
import vlib

ACC, ACC_CFG = "c15_iter/IterTrace", "c15_iter/IterTrace.cfg"


def run(ctx):
    ctx.model("c15_iter/IteratorsMC", "c15_iter/Iterators_mc.cfg", workers=4)
    out = ctx.sub("drive")
    meta = ctx.drive(out, shards=16)
    traces = vlib.glob_traces(out)
    bad, st = ctx.accept(ACC, ACC_CFG, traces)
    if st.get("segs", 0) != meta["segments"] or (not bad and st.get("runs", 0) != meta["segments"]):
        raise vlib.Infra("acceptor saw %s segments / %s runs, driver wrote %s" % (st.get("segs"), st.get("runs"), meta["segments"]))
    if not meta.get("timed_out") and len(meta["runs_per_kind"]) != 13:
        raise vlib.Infra("driver covered %d iterator kinds, expected 13" % len(meta["runs_per_kind"]))
    vlib.add_bad_segments(ctx, traces, bad)
    ctx.cov.update(
        evaluations=st.get("runs", 0), distinct_nontrivial=st.get("nontrivial", 0),
        traces_validated_against_impl=st.get("segs", 0),
        rule="every iterator on its parameter grid (n<=6, all k in 0..n+2, multiplicities/frequencies in (0..2)^<=3, factors in (0..3)^<=3, n=0/1 "
             "boundaries) and the predicate-driven ones on EVERY predicate table over small shapes (products <=(2,2,2), permutations n<=3, patterns "
             "n<=3, every sub-relation of the order n<=4; quick runs a seed-chosen quarter of the two largest table families) plus random tables "
             "above; Next until false and three more calls. IterTrace.tla compares the yielded sequence with the family / documented order defined "
             "in Iterators.tla. Non-trivial = runs with >=2 objects or a predicate that rejects.",
        samples=["RestrictedPrefixPermutations(p=[3],pass=[[0],[0,2],[2]])", "CombinationsColex(p=[3,5])", "TopologicalSorts(p=[4],less=[[0,2],[1,3]])"],
        exhaustive=False, acceptor_stats=st, runs_per_kind=meta["runs_per_kind"])
    ctx.assumptions += ["order is compared only where the documentation fixes one (lexicographic, colex, RGS order, reverse lexicographic)",
                        "size-0 families of LexicographicPermutations/MultisetPermutations/IntegerPartitions: nothing or the one empty object are both accepted",
                        "Partitions(n<1) is a documented refusal"]
    return vlib.finish(ctx, vlib.standard_confirm(ctx, ACC, ACC_CFG))


def replay(ctx, rp):
    ctx.candidates.append(dict(key=rp["key"], why=rp.get("why", ""), input=rp["input"]))
    return vlib.standard_confirm(ctx, ACC, ACC_CFG)(ctx.candidates)
