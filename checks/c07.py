"""C07 - graph codecs round-trip every graph and follow their format definitions."""
import vlib

ACC, ACC_CFG = "c07_codec/CodecTrace", "c07_codec/CodecTrace.cfg"
PID = "C07"


def run(ctx):
    ctx.level = "exploration"
    ctx.model("c07_codec/GraphCodecsMC", "c07_codec/GraphCodecs_mc.cfg", workers=4)
    out = ctx.sub("drive")
    meta = ctx.drive(out, shards=16)
    traces = vlib.glob_traces(out)
    bad, st = ctx.accept(ACC, ACC_CFG, traces, heap="6g", timeout=2400)
    if st.get("segs", 0) != meta["segments"] or (not bad and st.get("codecs", 0) != meta["segments"]):
        raise vlib.Infra("acceptor saw %s segments / %s codec events, driver wrote %s" % (st.get("segs"), st.get("codecs"), meta["segments"]))
    vlib.add_bad_segments(ctx, traces, bad, truncate_hist=False)
    ctx.cov.update(
        evaluations=st.get("codecs", 0), distinct_nontrivial=st.get("nontrivial", 0),
        traces_validated_against_impl=st.get("segs", 0),
        rule="all graphs n<=4(5); edgeless/complete/one-edge and the sparse6 padding shape at every n<=70; random graphs at n in {5..40} incl. "
             "16,17,32,33; n in {62,63,64,100,300} (long header); every Pruefer code n<=5(6) both ways and random longer codes; concatenations of "
             "1-4 Multicode records. CodecTrace.tla: graph6 and Multicode bytes = the format definition's writer, sparse6 bytes read by the format "
             "definition's reader give the graph back (the string itself is not unique), allowed bytes only, the Go decoders recover a well-formed "
             "equal graph with and without the optional header, PruferEncode/PruferDecode = the classical definition in both compositions. "
             "Non-trivial = graphs with n>=2 and m>=1.",
        samples=["s6(n=3,e=[],sparse)", "g6(n=63,...)", "pruferdec([0 0])", "mcmulti([{n=3,e=[0 2]} {n=2,e=[0]}])"],
        exhaustive=False, acceptor_stats=st, calls_per_codec=meta.get("calls_per_codec"))
    ctx.assumptions += ["8-byte size headers (n >= 258048) are exercised only through the header arithmetic of GraphCodecs.tla, not with real graphs"]
    return vlib.finish(ctx, vlib.standard_confirm(ctx, ACC, ACC_CFG, pid=PID))


def replay(ctx, rp):
    ctx.candidates.append(dict(key=rp["key"], why=rp.get("why", ""), input=rp["input"]))
    return vlib.standard_confirm(ctx, ACC, ACC_CFG, pid=PID)(ctx.candidates)
