"""C03 - graph search yields exactly one representative of every isomorphism class."""
import vlib

ACC, ACC_CFG = "c03_search/SearchTrace", "c03_search/SearchTrace.cfg"


def run(ctx):
    import concurrent.futures as cf
    with cf.ThreadPoolExecutor(max_workers=4) as ex:
        futs = [ex.submit(ctx.model, "c03_search/SearchMC", "c03_search/Search_mc_%s.cfg" % p, 4, heap="8g", timeout=2400)
                for p in ("All", "TriangleFree", "MaxDeg2")]
        out = ctx.sub("drive")
        meta = ctx.drive(out, shards=8, timeout=6000)
        for f in futs:
            f.result()
    traces = vlib.glob_traces(out)
    bad, st = ctx.accept(ACC, ACC_CFG, traces, heap="6g", timeout=6000)
    if st.get("segs", 0) != meta["segments"] or (not bad and st.get("runs", 0) != meta["runs"]):
        raise vlib.Infra("acceptor saw %s segments / %s runs, driver wrote %s / %s" % (st.get("segs"), st.get("runs"), meta["segments"], meta["runs"]))
    vlib.add_bad_segments(ctx, traces, bad, truncate_hist=False)
    ctx.cov.update(
        evaluations=st.get("graphs", 0), distinct_nontrivial=st.get("nontrivial", 0),
        traces_validated_against_impl=st.get("runs", 0),
        rule="design: Search.tla (augment by one orbit representative of every subset of size <= mindeg+1; accept iff the canonically first extremal "
             "vertex lies in the orbit of the new vertex) explored by TLC to level 5 for the full search and two hereditary predicates: kept graphs "
             "pairwise non-isomorphic, as many as classes (Burnside). Code: for n=0..%d the plain search, every split modulus m<=%d (shards in "
             "parallel goroutines), six hereditary predicates (triangle-free, max degree 2, forest, K4-free, claw-free, bipartite) as preprune and as "
             "prune, also sharded. SearchTrace.tla: every yielded value well formed (M, Degrees), brute-force canonical codes pairwise distinct, plain "
             "count = Burnside, shards together = the classes, pruned = exactly the classes satisfying the predicate. evaluations = graphs yielded; "
             "non-trivial = runs with >=2 graphs." % (7 if ctx.thorough else 6, 5 if ctx.thorough else 3),
        samples=["Search(n=4) run m=2 none: shards [[...],[...]]", "Search(n=6) run m=1 forest pre", "Search(n=5) run m=3 bipartite post"],
        exhaustive=True, acceptor_stats=st)
    ctx.assumptions += ["which labelled representative is yielded is not compared", "predicates are handed to the search as brute-force Go functions with TLA+ twins"]
    return vlib.finish(ctx, vlib.standard_confirm(ctx, ACC, ACC_CFG))


def replay(ctx, rp):
    ctx.candidates.append(dict(key=rp["key"], why=rp.get("why", ""), input=rp["input"]))
    return vlib.standard_confirm(ctx, ACC, ACC_CFG)(ctx.candidates)
