"""C08 - text decoders are total: malformed input gives an error, never a crash."""
import vlib

ACC, ACC_CFG = "c07_codec/CodecTrace", "c07_codec/CodecTrace.cfg"
PID = "C08"


def run(ctx):
    ctx.level = "exploration"
    ctx.model("c07_codec/GraphCodecsMC", "c07_codec/GraphCodecs_mc.cfg", workers=4)
    out = ctx.sub("drive")
    meta = ctx.drive(out, shards=16)
    traces = vlib.glob_traces(out)
    bad, st = ctx.accept(ACC, ACC_CFG, traces, heap="4g", timeout=2400)
    if st.get("segs", 0) != meta["segments"] or (not bad and not meta.get("timed_out") and st.get("decodes", 0) != meta["strings"]):
        raise vlib.Infra("acceptor saw %s segments / %s decodes, driver wrote %s" % (st.get("segs"), st.get("decodes"), meta["segments"]))
    vlib.add_bad_segments(ctx, traces, bad, truncate_hist=False)
    ctx.cov.update(
        evaluations=st.get("decodes", 0), distinct_nontrivial=st.get("nontrivial", 0),
        traces_validated_against_impl=st.get("segs", 0),
        rule="every string over the alphabet {':','>','?','@','A','B','^','}','~',0x7f} of length <=%d through Graph6Decode and Sparse6Decode, bare, "
             "behind ':' and behind the optional headers; plus seeded mutations (truncate, extend, flip, change the size byte, splice a long header, "
             "randomise the data) of valid encodings; sparse6 streams enumerated at the level of the format's (b, x) pairs (EVERY sequence of at most L "
             "pairs for n in 2..9 (17), padded with 1-bits and, for short ones, 0-bits: loops, jumps, repeated edges, x >= n); every graph6 data byte combination for n = 2..5; each call under recover and a 3 s watchdog. CodecTrace.tla accepts an error, or a well-formed "
             "graph on the declared number of vertices whose re-encoding decodes to the same graph; it re-derives the declared size to confirm "
             "that exactly the strings declaring n > 4096 were skipped. Non-trivial = executed strings whose size header is complete." % (5 if ctx.thorough else 4),
        samples=['Graph6Decode("~")', 'Sparse6Decode(":A~")', 'Sparse6Decode(">>sparse6<<:B")'],
        exhaustive=True, acceptor_stats=st)
    ctx.assumptions += ["which malformed strings are rejected rather than leniently decoded is not fixed by the statement: both are accepted",
                        "non-termination is judged by a 3 s watchdog"]
    return vlib.finish(ctx, vlib.standard_confirm(ctx, ACC, ACC_CFG, pid=PID))


def replay(ctx, rp):
    ctx.candidates.append(dict(key=rp["key"], why=rp.get("why", ""), input=rp["input"]))
    return vlib.standard_confirm(ctx, ACC, ACC_CFG, pid=PID)(ctx.candidates)
