"""C09 - clique and colouring invariants are exact and come with valid witnesses."""
import vlib

ACC, ACC_CFG = "c09_inv/InvariantsTrace", "c09_inv/InvariantsTrace.cfg"
PID = "C09"
WHAT = ("CliqueNumber, IndependenceNumber, AllMaximalCliques, ChromaticNumber, IsKColorable for every k in 0..n+1, ChromaticIndex, ChromaticPolynomial "
        "(evaluated at k=0..n), GreedyColor for all orders (n<=3) / seeded orders, Degeneracy")


def run(ctx, pid=PID, what=WHAT):
    ctx.level = "exploration"
    ctx.model("c09_inv/GraphTheoryMC", "c09_inv/GraphTheory_mc.cfg", workers=4, heap="8g")
    out = ctx.sub("drive")
    meta = ctx.drive(out, shards=16, timeout=3000, pid=pid)
    traces = vlib.glob_traces(out)
    bad, st = ctx.accept(ACC, ACC_CFG, traces, heap="5g", timeout=3000)
    if st.get("segs", 0) != meta["segments"] or st.get("graphs", 0) != meta["segments"]:
        raise vlib.Infra("acceptor saw %s segments / %s graphs, driver wrote %s" % (st.get("segs"), st.get("graphs"), meta["segments"]))
    vlib.add_bad_segments(ctx, traces, bad, truncate_hist=False)
    ctx.cov.update(
        evaluations=st.get("variants", 0), distinct_nontrivial=st.get("nontrivial", 0),
        traces_validated_against_impl=st.get("segs", 0),
        rule="definitions of lib/GraphTheory.tla first cross-checked by TLC against a second characterisation on all graphs n<=4/5 (GraphTheoryMC). "
             "Code: every labelled graph n<=4, every class n=5 (x6 relabellings) and n=6 (x3), %s classes of n=7, each on three representations "
             "(dense, sparse, view of view) plus relabellings; functions: %s. InvariantsTrace.tla computes the definitional values once per base graph, "
             "requires every variant to agree and validates every witness on the relabelled graph. evaluations = (graph, variant) pairs; non-trivial = "
             "connected base graphs with n>=4 that are neither complete nor edgeless." % ("all" if ctx.thorough else "40 seeded", what),
        samples=["%s[class6](n=6,e=[0 2 5 9 14];6 variants)" % pid, "%s[all](n=4,e=[0 1 2];3 variants)" % pid],
        exhaustive=False, acceptor_stats=st, inputs=meta.get("inputs"))
    return vlib.finish(ctx, vlib.standard_confirm(ctx, ACC, ACC_CFG, pid=pid))


def replay(ctx, rp, pid=PID):
    ctx.candidates.append(dict(key=rp["key"], why=rp.get("why", ""), input=rp["input"]))
    return vlib.standard_confirm(ctx, ACC, ACC_CFG, pid=pid)(ctx.candidates)
