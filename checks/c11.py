"""C11 - IsPlanar decides planarity for every graph and never aborts."""
import os
import vlib

ACC, ACC_CFG = "c09_inv/InvariantsTrace", "c09_inv/InvariantsTrace.cfg"
MOD = "c11_planar/PlanarGenMC"


def run(ctx):
    ctx.level = "exploration"
    big = ctx.thorough
    ctx.model("c09_inv/GraphTheoryMC", "c09_inv/GraphTheory_mc.cfg", workers=4, heap="8g")
    # the generator itself against the exact oracle (all behaviours of <= 4 operations, graphs up to 7 vertices)
    ctx.model(MOD, "c11_planar/PlanarGen_mc.cfg", heap="12g", timeout=2400)
    # the same invariants (the exact oracle up to 8 vertices, the tracked faces) on randomised behaviours of up to 8 operations: flips and
    # triangulation + one edge on 6..8 vertices, which the exhaustive run (<= 4 operations) does not reach
    chk = ctx.tlc(MOD, "c11_planar/PlanarGen_simchk.cfg", workers=1, heap="6g", timeout=2400,
                  simulate="num=%d" % (1200 if big else 150), depth=12, extra=["-seed", str(ctx.seed)])
    ctx.cov.setdefault("models", []).append(dict(module=MOD, cfg="c11_planar/PlanarGen_simchk.cfg", mode="simulate", wall_s=round(chk["wall"], 1)))
    gen = os.path.join(ctx.work, "gen.out")
    ctx.tlc(MOD, "c11_planar/PlanarGen_dump.cfg", workers=1, outfile=gen, heap="8g", timeout=2400)
    # long randomised behaviours (PlanarGen.Randomised: one random successor per class of operation), every state emitted:
    # simP stays planar (K4 start, no K5 block), simN mixes all starts and may glue K5 blocks onto planar graphs
    nsim = 600 if big else 40
    for cfg in ("simP", "simN"):
        sim = os.path.join(ctx.work, cfg + ".out")
        ctx.tlc(MOD, "c11_planar/PlanarGen_%s.cfg" % cfg, workers=1, outfile=sim, heap="4g", timeout=2400,
                simulate="num=%d" % nsim, depth=45, extra=["-seed", str(ctx.seed)])
        with open(gen, "a") as f:
            f.write(open(sim).read())
    out = ctx.sub("drive")
    meta = ctx.drive(out, gen=gen, shards=16, timeout=3000)
    traces = vlib.glob_traces(out)
    bad, st = ctx.accept(ACC, ACC_CFG, traces, heap="5g", timeout=3000)
    if st.get("segs", 0) != meta["segments"] or st.get("graphs", 0) != meta["segments"]:
        raise vlib.Infra("acceptor saw %s segments / %s graphs, driver wrote %s" % (st.get("segs"), st.get("graphs"), meta["segments"]))
    inputs = meta.get("inputs", {})
    if inputs.get("gen-planar", 0) < 50 or inputs.get("gen-nonplanar", 0) < 50:
        raise vlib.Infra("too few generated graphs: %r" % inputs)
    if any("REBUILD-MISMATCH" in k for k in inputs):
        raise vlib.Infra("the harness could not rebuild a generated graph with the real edit operations: %r" % inputs)
    vlib.add_bad_segments(ctx, traces, bad, truncate_hist=False)
    ctx.cov.update(
        evaluations=st.get("variants", 0), distinct_nontrivial=st.get("nontrivial", 0),
        traces_validated_against_impl=st.get("segs", 0),
        rule="exact oracle (GraphTheory.tla: K5/K3,3 subgraph after some sequence of edge contractions, cross-checked by TLC): every class n<=6 under "
             "ALL n! relabellings on dense/sparse + a view, %s classes of n=7%s. By construction (PlanarGen.tla, itself model-checked against the oracle "
             "on graphs up to 7 vertices): every state of the behaviours with <=3 operations and every state of 2 x %d randomised behaviours of 40 operations "
             "(triangulations grown by face insertions and diagonal flips, then edge deletions / subdivisions / pendant and isolated vertices / glued K4 blocks / new path components; K5 and "
             "K3,3 with subdivisions, extra edges and vertices; K5 blocks glued onto planar graphs; a triangulation plus one more edge), rebuilt with the real EditableGraph operations on both representations and submitted to IsPlanar under 4 (non-planar) / 10 (planar) seeded relabellings + "
             "a view, each call under recover and a 20 s watchdog. Non-trivial = connected, n>=4, neither complete nor edgeless."
             % ("all" if big else "120 seeded", ", 1500 seeded classes of n=8" if big else "", nsim),
        samples=["C11[class6](n=6,e=[3 4 5 6 7 8 10 11 12];721 variants)", "C11[gen-nonplanar](n=31,...;7 variants)", "C11[gen-planar](n=38,...;7 variants)"],
        exhaustive=False, acceptor_stats=st, inputs={k: v for k, v in inputs.items()})
    ctx.assumptions += ["beyond n=7/8 the verdict is known by construction (Kuratowski subgraphs, Euler's bound on a triangulation plus one edge / triangulations by face insertion and flips), not by an independent oracle"]
    return vlib.finish(ctx, vlib.standard_confirm(ctx, ACC, ACC_CFG))


def replay(ctx, rp):
    ctx.candidates.append(dict(key=rp["key"], why=rp.get("why", ""), input=rp["input"]))
    return vlib.standard_confirm(ctx, ACC, ACC_CFG)(ctx.candidates)
