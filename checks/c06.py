"""C06 - every graph the library constructs is well formed and matches its definition."""
import vlib

ACC, ACC_CFG = "c07_codec/CodecTrace", "c07_codec/CodecTrace.cfg"
PID = "C06"


def run(ctx):
    ctx.level = "exploration"
    ctx.model("c07_codec/FamiliesMC", "c07_codec/GraphCodecs_mc.cfg", workers=4)
    out = ctx.sub("drive")
    meta = ctx.drive(out, shards=16)
    traces = vlib.glob_traces(out)
    bad, st = ctx.accept(ACC, ACC_CFG, traces, heap="4g")
    if st.get("segs", 0) != meta["segments"]:
        raise vlib.Infra("acceptor saw %s segments, driver wrote %s" % (st.get("segs"), meta["segments"]))
    vlib.add_bad_segments(ctx, traces, bad, truncate_hist=False)
    ctx.cov.update(
        evaluations=st.get("constructs", 0) + st.get("views", 0), distinct_nontrivial=st.get("nontrivial", 0),
        traces_validated_against_impl=st.get("segs", 0),
        rule="every constructor/generator/transformation/decoder on its grid (one-parameter families n=0..8(12), CompletePartite (0..3)^<=3, "
             "Kneser/BipartiteKneser n<=6, Circulant n<=8 with negative and >=n differences, GeneralisedPetersen n<=7, all graphs n<=4(5) and random "
             "n<=10 as inputs of NewDense/NewSparse/Complement*/LineGraphDense/InducedSubgraph view (every vertex sequence)/SplitEdge/Contract on both "
             "representations, every Pruefer code n<=5(6), Multicode/graph6/sparse6 decodes, RandomGraph/RandomTree): the result is fully observed, "
             "every caller-supplied slice is then overwritten and the result observed again. CodecTrace.tla checks well-formedness, equality with "
             "the definition of Families.tla, and that the second observation is unchanged; live views are re-observed after every edit of the "
             "base graph. Non-trivial = results with n>=2 and m>=1.",
        samples=["Cycle(p=[2])", "NewDense(p=[3],m=[1 0 1]) then the byte slice is flipped", "InducedView(m=[2 0],g={n=3,e=[0 2]},sparse)"],
        exhaustive=False, acceptor_stats=st, calls_per_family=meta.get("calls_per_family"))
    ctx.assumptions += ["LineGraphDense/RookGraph: vertex order undocumented - the edge-rank order or any isomorphic copy (<=6 vertices) is accepted",
                        "a constructor's own refusal (panic with a message) is accepted only outside the documented domain; runtime errors never are",
                        "FlowerSnark(1), GeneralisedPetersen with k=0, Cycle(n<3): well-formedness only (no definition)"]
    return vlib.finish(ctx, vlib.standard_confirm(ctx, ACC, ACC_CFG, pid=PID))


def replay(ctx, rp):
    ctx.candidates.append(dict(key=rp["key"], why=rp.get("why", ""), input=rp["input"]))
    return vlib.standard_confirm(ctx, ACC, ACC_CFG, pid=PID)(ctx.candidates)
