"""C04 - a saved search resumes with exactly the remaining graphs."""
import json
import os
import vlib

MOD = "c03_search/SaveLoadMC"
ACC, ACC_CFG = "c03_search/SaveLoadTrace", "c03_search/SaveLoadTrace.cfg"


def run(ctx):
    lens = (0, 1, 2, 4) if ctx.thorough else (0, 1, 2)
    a_trans = a_steps = 0
    for L in lens:
        ctx.model(MOD, "c03_search/SaveLoad_mc%d.cfg" % L, workers=8)
        gen = os.path.join(ctx.work, "gen%d.out" % L)
        g = ctx.tlc(MOD, "c03_search/SaveLoad_gen%d.cfg" % L, workers=1, outfile=gen, heap="6g")
        outA = ctx.sub("driveA%d" % L)
        metaA = ctx.drive(outA, gen=gen, shards=1)
        if metaA.get("A_transitions_replayed", 0) != g["generated"] - 1:
            raise vlib.Infra("L=%d: replayed %s transitions, TLC generated %s" % (L, metaA.get("A_transitions_replayed"), g["generated"] - 1))
        a_trans += metaA["A_transitions_replayed"]
        a_steps += metaA["A_steps"]
        ctx.candidates += json.load(open(os.path.join(outA, "replayA.json")))
    out = ctx.sub("drive")
    meta = ctx.drive(out, shards=16, timeout=3000)
    traces = vlib.glob_traces(out)
    bad, st = ctx.accept(ACC, ACC_CFG, traces, heap="4g", timeout=3000)
    if st.get("segs", 0) != meta["segments"]:
        raise vlib.Infra("acceptor saw %s segments, driver wrote %s" % (st.get("segs"), meta["segments"]))
    vlib.add_bad_segments(ctx, traces, bad, truncate_hist=False)
    ctx.cov.update(
        evaluations=a_steps + st.get("nexts", 0) + st.get("drains", 0), distinct_nontrivial=st.get("inner", 0) + a_trans,
        traces_validated_against_impl=a_trans + st.get("segs", 0),
        rule="A: every transition of SaveLoad.tla (3 iterators, 2 blobs, output lengths %s) replayed from a shortest history on real iterators of a "
             "configuration with exactly that many outputs; every Next compared with the uninterrupted iterator. B: %d configurations (n<=%d, shards, "
             "hereditary predicates as preprune/prune, a predicate rejecting everything) x EVERY save position k in 0..len (about 100 positions where "
             "the output is longer than 200): save, drain the original, load, advance, save again, load into a third iterator, drain all, reload the "
             "first blob; saving an exhausted iterator; seeded random chains over 6 iterators and 4 blobs. SaveLoadTrace.tla replays the session on "
             "SaveLoad's Eff/Res with Out := the logged reference. Non-trivial = saves strictly inside the output + spec transitions."
             % (list(lens), meta["configurations"], 7 if ctx.thorough else 6),
        samples=["SaveLoad[n=4,a=0,m=1,none/none](Next(1);Next(1);Save(1->b1);Drain(1);Load(b1->2);...)"],
        exhaustive=True, acceptor_stats=st, save_positions=meta.get("save_positions"))
    ctx.assumptions += ["Save/Load panicking on an encoder error is outside the statement; byte equality of two saves is not required",
                        "values are compared as labelled graphs (the resumed iterator continues the same depth-first search)"]
    return vlib.finish(ctx, vlib.standard_confirm(ctx, ACC, ACC_CFG))


def replay(ctx, rp):
    ctx.candidates.append(dict(key=rp["key"], why=rp.get("why", ""), input=rp["input"]))
    return vlib.standard_confirm(ctx, ACC, ACC_CFG)(ctx.candidates)
