"""C12 - a built DAWG is an exact, minimal, rank-indexed index of its word set."""
import json
import os
import vlib

MOD = "c12_dawg/DawgBuildMC"
ACC, ACC_CFG = "c12_dawg/DawgTrace", "c12_dawg/DawgTrace.cfg"
PID = "C12"


def run(ctx):
    big = ctx.thorough
    ctx.model(MOD, "c12_dawg/DawgBuild_mc3.cfg")
    ctx.model(MOD, "c12_dawg/DawgBuild_mcT.cfg", extra=(["-coverage", "1"] if big else []))
    gen = os.path.join(ctx.work, "gen.out")
    g = ctx.tlc(MOD, "c12_dawg/DawgBuild_genT.cfg" if big else "c12_dawg/DawgBuild_gen3.cfg", workers=1, outfile=gen, heap="8g")
    # the Builder life cycle (Add after Finish, second Finish, Initialise): DawgLife.tla, its dump appended to the same generator file ("L" lines)
    ctx.model("c12_dawg/DawgLifeMC", "c12_dawg/DawgLife_mc.cfg")
    gen2 = os.path.join(ctx.work, "gen2.out")
    g2 = ctx.tlc("c12_dawg/DawgLifeMC", "c12_dawg/DawgLife_gen.cfg", workers=1, outfile=gen2)
    with open(gen, "a") as f:
        f.write(open(gen2).read())
    out = ctx.sub("drive")
    meta = ctx.drive(out, gen=gen, shards=16)
    if meta.get("A_transitions_replayed", 0) != g["generated"] - 1:
        raise vlib.Infra("replayed %s transitions, TLC generated %s" % (meta.get("A_transitions_replayed"), g["generated"] - 1))
    if meta.get("A_life_transitions_replayed", 0) != g2["generated"] - 1:
        raise vlib.Infra("replayed %s life-cycle transitions, TLC generated %s" % (meta.get("A_life_transitions_replayed"), g2["generated"] - 1))
    ctx.candidates += json.load(open(os.path.join(out, "replayA.json")))
    traces = vlib.glob_traces(out)
    bad, st = ctx.accept(ACC, ACC_CFG, traces, heap="4g")
    if st.get("segs", 0) != meta["segments"]:
        raise vlib.Infra("acceptor saw %s segments, driver wrote %s" % (st.get("segs"), meta["segments"]))
    vlib.add_bad_segments(ctx, traces, bad)
    ctx.cov.update(
        evaluations=meta["A_steps"] + st.get("adds", 0) + st.get("lookups", 0),
        distinct_nontrivial=st.get("nontrivial", 0) + g["generated"] - 1,
        traces_validated_against_impl=meta["A_transitions_replayed"] + st.get("segs", 0),
        rule="A2: every transition of DawgLife.tla (Builder life cycle: Add after Finish and a second Finish are rejected, Initialise gives a fresh "
             "builder, a returned Dawg never changes) replayed after a shortest history, plus every script of <= 4 calls and random long scripts judged by DawgTrace.tla. "
             "A: every transition of DawgBuild.tla (every strictly increasing list over %s followed by any further Add, accepted or rejected) "
             "replayed on a real Builder: Add errors, NumberOfWords, node count against the minimal automaton, Lookup of every string one longer "
             "than the longest word. B: word sets with rejected adds (random over {a,b}^<=4, {a,b,c}^<=3, bytes {0,1,127,128,200,255}), boundary "
             "sets (empty list, empty word as nil and as []byte{}), long shared prefixes/suffixes, nodes with up to 256 children, CROSSWD samples "
             "up to %d words; DawgTrace.tla checks the full node table (language, minimality, numWords) and every Lookup. Non-trivial = sets in "
             "which two words share a last letter and two share a first letter, plus distinct spec transitions."
             % ("{a,b}^<=3" if big else "{a,b,c}^<=2", 4000 if big else 1500),
        samples=['dawg[ab4]("a","ab","ab","b","ba")', 'dawg[emptyword]("")', "dawg[fan200](...)"],
        exhaustive=True, acceptor_stats=st, driver_meta=meta)
    ctx.assumptions += ["on a non-member the integer returned by Lookup is unspecified", "a Dawg returned by Finish is observed again only within the same process (no aliasing across goroutines)"]
    return vlib.finish(ctx, vlib.standard_confirm(ctx, ACC, ACC_CFG, pid=PID))


def replay(ctx, rp):
    ctx.candidates.append(dict(key=rp["key"], why=rp.get("why", ""), input=rp["input"]))
    return vlib.standard_confirm(ctx, ACC, ACC_CFG, pid=PID)(ctx.candidates)
