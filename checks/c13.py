"""C13 - DAWG search returns exactly the matching words with their ranks, in order."""
import vlib

ACC, ACC_CFG = "c12_dawg/DawgTrace", "c12_dawg/DawgTrace.cfg"
PID = "C13"


def run(ctx):
    ctx.model("c12_dawg/DawgSearchMC", "c12_dawg/DawgSearch_mc.cfg", heap="12g")
    out = ctx.sub("drive")
    meta = ctx.drive(out, shards=16)
    traces = vlib.glob_traces(out)
    bad, st = ctx.accept(ACC, ACC_CFG, traces, heap="4g")
    if st.get("segs", 0) != meta["segments"] or st.get("searches", 0) == 0:
        raise vlib.Infra("acceptor saw %s segments / %s searches, driver wrote %s" % (st.get("segs"), st.get("searches"), meta["segments"]))
    vlib.add_bad_segments(ctx, traces, bad)
    ctx.cov.update(
        evaluations=st.get("searches", 0), distinct_nontrivial=st.get("matches", 0),
        traces_validated_against_impl=st.get("segs", 0),
        rule="design: DawgSearch.tla's protocol machine (depth-first walk driving pattern/anagram searcher state machines, rank counting over "
             "refused sub-tries) explored by TLC for all word sets over {a,b}^<=2 x all patterns/anagrams of length <=3 over {a,b,c,?} (also with the "
             "blank byte inside the alphabet) and pattern+anagram pairs. Code: random word sets over {a,b}^<=4/{a,b,c}^<=3, boundary sets, dictionary "
             "samples x every pattern and anagram of length <=%d over {a,b,c,?,z} plus random longer ones, blank inside the alphabet, searcher pairs, "
             "no searcher; real searchers wrapped by a recording Searcher, search run twice with the same objects. DawgTrace.tla checks results = "
             "definition (order, ranks), second run identical, Dawg unchanged, every recorded AllowStep/AllowWord answer = the specified searcher's, "
             "searchers back in the initial state. distinct_nontrivial counts returned matches." % (3 if ctx.thorough else 2),
        samples=['dawg[ab4]("a","ab","b") pattern "?b" blank ?', 'anagram "ba?" blank ?', 'pattern "ab" with blank b (inside the alphabet)'],
        exhaustive=False, acceptor_stats=st, families=meta.get("families"))
    return vlib.finish(ctx, vlib.standard_confirm(ctx, ACC, ACC_CFG, pid=PID))


def replay(ctx, rp):
    ctx.candidates.append(dict(key=rp["key"], why=rp.get("why", ""), input=rp["input"]))
    return vlib.standard_confirm(ctx, ACC, ACC_CFG, pid=PID)(ctx.candidates)
