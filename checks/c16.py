"""C16 - binomials are exact or refuse; Rank/Unrank are inverse bijections."""
import vlib

ACC, ACC_CFG = "c16_comb/CombTrace", "c16_comb/CombTrace.cfg"


def run(ctx):
    ctx.level = "exploration"
    ctx.model("c16_comb/BigNatMC", "c16_comb/BigNat_mc.cfg", workers=2)
    ctx.model("c16_comb/CombMC", "c16_comb/BigNat_mc.cfg", workers=2)
    out = ctx.sub("drive")
    meta = ctx.drive(out, shards=16)
    traces = vlib.glob_traces(out)
    bad, st = ctx.accept(ACC, ACC_CFG, traces, heap="4g", timeout=2400)
    if st.get("segs", 0) != meta["segments"] or st.get("calls", 0) != meta["segments"]:
        raise vlib.Infra("acceptor saw %s segments / %s calls, driver wrote %s" % (st.get("segs"), st.get("calls"), meta["segments"]))
    vlib.add_bad_segments(ctx, traces, bad, truncate_hist=False)
    ctx.cov.update(
        evaluations=st.get("calls", 0), distinct_nontrivial=st.get("beyondTable", 0) + st.get("unranks", 0),
        traces_validated_against_impl=st.get("segs", 0),
        rule="CoeffUint64/Coeff on all (n,k) with n<=70; for every k<=40 the refusal threshold of the real code found by binary search and the calls "
             "on both sides of it (also the symmetric k' = n-k), the true thresholds of C(n,k)*k < 2^64 (+-2) for k=2..33, seeded 64-bit (n,k); "
             "Coeffs(n) up to 70; Rank on seeded increasing sequences; Unrank for r<=1500(6000) x k<=6, seeded large r in the range where it is "
             "linear-time feasible (all r<=MaxInt for k>=3, r<=5e13 for k=2, r<=1e7 for k=1) under a 3 s watchdog; Rank/Unrank against the order "
             "of CombinationsColex for n<=9. CombTrace.tla judges every call with exact limb arithmetic (BigNat.tla): the value is C(n,k) or the "
             "call refuses, and it does not refuse where C(n,k)*min(k,n-k) fits. Non-trivial = calls beyond the built-in table (n>32) + Unrank calls.",
        samples=["Coeff64(4000000,3)", "Coeff64(80,19)", "Unrank(r=1333313333400026,k=3)", "Rank([3 17 40])"],
        exhaustive=False, acceptor_stats=st, calls=meta.get("calls"))
    ctx.assumptions += ["Unrank is linear in its largest element: termination is only tested where at most ~1e7 iterations are needed",
                        "Rank may refuse where one of its terms C(s_i, i) is outside Coeff's guaranteed range"]
    return vlib.finish(ctx, vlib.standard_confirm(ctx, ACC, ACC_CFG))


def replay(ctx, rp):
    ctx.candidates.append(dict(key=rp["key"], why=rp.get("why", ""), input=rp["input"]))
    return vlib.standard_confirm(ctx, ACC, ACC_CFG)(ctx.candidates)
