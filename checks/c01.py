"""C01 - canonical labelling is a complete isomorphism invariant."""
import vlib

ACC, ACC_CFG = "c01_canon/CanonTrace", "c01_canon/CanonTrace.cfg"
PID = "C01"


def run(ctx):
    big = ctx.thorough
    ctx.model("c01_canon/CanonMC", "c01_canon/Canon_mc.cfg")
    if big:
        ctx.model("c01_canon/CanonMC", "c01_canon/Canon_mc5.cfg", heap="16g", timeout=3000)
    out = ctx.sub("drive")
    meta = ctx.drive(out, shards=16, timeout=6000)
    traces = vlib.glob_traces(out)
    bad, st = ctx.accept(ACC, ACC_CFG, traces, heap="4g", timeout=3000)
    if st.get("segs", 0) != meta["segments"] or st.get("sums", 0) + st.get("wb", 0) != meta["segments"]:
        raise vlib.Infra("acceptor saw %s segments / %s summaries, driver wrote %s" % (st.get("segs"), st.get("sums"), meta["segments"]))
    if st.get("relabellings", 0) != meta["relabellings"]:
        raise vlib.Infra("relabellings: driver %s, acceptor %s" % (meta["relabellings"], st.get("relabellings")))
    # white-box findings are LEADS (sufficient-not-necessary conditions on the search tree): the graph is swept under all
    # relabellings (n <= 9) or many seeded ones, and only a real difference of canonical graphs is reported
    leads = [b for b in bad if str(b.get("why", "")).startswith("LEAD")]
    bad = [b for b in bad if not str(b.get("why", "")).startswith("LEAD")]
    vlib.add_bad_segments(ctx, traces, bad, truncate_hist=False)
    if leads:
        import json, os
        segs = vlib.segments(traces, [b["seg"] for b in leads])
        seen, inputs = set(), []
        for b in leads:
            g = segs[b["seg"]]["reset"]["input"]["g"]
            k = json.dumps(g)
            if k in seen:
                continue
            seen.add(k)
            ctx.leads.append(dict(key=segs[b["seg"]]["reset"]["key"][:200], why=b["why"]))
            inputs.append(dict(kind="sum", name="lead", g=g, all=g["n"] <= 9, samples=20000, seed=ctx.seed))
        d = ctx.sub("leads")
        json.dump(dict(inputs=inputs[:12]), open(os.path.join(d, "in.json"), "w"))
        ctx.drive(d, infile=os.path.join(d, "in.json"), shards=4, timeout=6000)
        ltr = vlib.glob_traces(d)
        lbad, _ = ctx.accept(ACC, ACC_CFG, ltr, heap="4g", timeout=3000)
        vlib.add_bad_segments(ctx, ltr, lbad, truncate_hist=False)
        ctx.cov["whitebox_leads"] = len(inputs)
    ctx.cov.update(
        evaluations=st.get("relabellings", 0), distinct_nontrivial=st.get("nontrivial", 0),
        traces_validated_against_impl=st.get("segs", 0),
        rule="design: Canon.tla (individualisation-refinement with sound automorphism pruning) model-checked for every labelled graph on N=4%s "
             "vertices: recorded automorphisms are automorphisms, final certificate = maximum over the unpruned tree, refinement commutes with "
             "relabelling, orbits/generators = Aut(G). Code: every labelled graph n<=5 x all n! relabellings x both representations; every class of "
             "n=6,7 x all relabellings; every class of n=8 x %s; hard graphs (strongly regular, vertex-transitive, disconnected unions, the two graphs "
             "that broke the pinned tree) x all/%d relabellings; G(n,p) n in {25,40,60}. One summary per graph: the distinct canonical graphs with a "
             "witness each; CanonTrace.tla checks every witness (permutation, canonical graph = relabelled graph, hence isomorphic) and that there is "
             "exactly one canonical graph. evaluations = relabellings executed; non-trivial = graphs with n>=3 and an edge."
             % (" and 5" if big else "", "all 40320 relabellings" if big else "48 seeded relabellings", 5000 if big else 200),
        samples=["Canon[G|WW}K](n=8,...;all relabellings)", "Canon[class7](n=7,e=[0 2 5 9];all relabellings)", "Canon[petersen](...;200 seeded relabellings)"],
        exhaustive=True, acceptor_stats=st, inputs=meta.get("inputs"))
    ctx.assumptions += ["class representatives for n>=6 are taken from search.All purely as inputs",
                        "the harness' comparison of canonical graphs across relabellings is trusted; every distinct canonical graph carries a witness that TLC re-checks"]
    leads_kept = list(ctx.leads)

    def confirm(cands):
        out = vlib.standard_confirm(ctx, ACC, ACC_CFG, pid=PID)(cands)
        return out
    rc = vlib.finish(ctx, confirm)
    if rc == 2 and not ctx.candidates:
        # only white-box leads without a black-box witness: recorded in the evidence, not an infrastructure failure
        return 0
    return rc


def replay(ctx, rp):
    ctx.candidates.append(dict(key=rp["key"], why=rp.get("why", ""), input=rp["input"]))
    return vlib.standard_confirm(ctx, ACC, ACC_CFG, pid=PID)(ctx.candidates)
