"""C19 - independent values can be used from different goroutines without interference."""
import concurrent.futures as cf
import os
import vlib

MOD = "c19_conc/ConcMC"
ACC, ACC_CFG = "c19_conc/ConcTrace", "c19_conc/ConcTrace.cfg"
KINDS = ["search", "canon", "iter", "builder", "dawgread", "graphread", "cliques", "comb", "sets", "codec"]


def one_kind(ctx, kind, gen, infile=None):
    out = ctx.sub("drive-" + kind + ("-confirm" if infile else ""))
    meta = ctx.drive(out, gen=None if infile else gen, infile=infile, shards=2, race=True, timeout=3000, env_extra={"VERIF_C19_KIND": kind})
    return kind, out, meta


def run(ctx):
    big = ctx.thorough
    gen = os.path.join(ctx.work, "gen.out")
    # schedules = complete behaviours of Conc.tla with private scratch; the invariant Independent is checked on the way
    cfgs = ["c19_conc/Conc_p2s6.cfg", "c19_conc/Conc_p3s3.cfg", "c19_conc/Conc_p4s2.cfg"]
    with open(gen, "w") as g:
        for i, cfg in enumerate(cfgs):
            part = os.path.join(ctx.work, "gen%d.out" % i)
            r = ctx.tlc(MOD, cfg, workers=1, outfile=part)
            ctx.cov["states"] = ctx.cov.get("states", 0) + r["distinct"]
            ctx.cov["transitions"] = ctx.cov.get("transitions", 0) + r["generated"]
            g.write(open(part).read())
    # the defect class must be expressible: with a shared scratch cell TLC refutes Independent
    ctx.tlc(MOD, "c19_conc/Conc_witness.cfg", workers=1, allow=(12,))
    ctx.build(race=True)
    races, traces, segments, gated = [], [], 0, 0
    with cf.ThreadPoolExecutor(max_workers=10) as ex:
        for kind, out, meta in ex.map(lambda k: one_kind(ctx, k, gen), KINDS):
            if meta.get("race"):
                races.append((kind, meta["report"]))
                continue
            traces += vlib.glob_traces(out)
            segments += meta["segments"]
            gated += meta.get("gated_runs", 0)
    bad, st = ctx.accept(ACC, ACC_CFG, traces)
    if st.get("segs", 0) != segments:
        raise vlib.Infra("acceptor saw %s segments, drivers wrote %s" % (st.get("segs"), segments))
    vlib.add_bad_segments(ctx, traces, bad, truncate_hist=False)
    for kind, rep in races:
        ctx.candidates.append(dict(key="race[%s]" % kind, why="data race reported by the Go race detector: " + rep[:1500],
                                   input=dict(kind=kind, procs=8, steps=2, sched=[], reps=40, race=True)))
    ctx.cov.update(
        evaluations=st.get("sections", 0), distinct_nontrivial=st.get("switches", 0),
        traces_validated_against_impl=st.get("runs", 0),
        rule="schedules: every complete interleaving of Conc.tla for (processes, sections) in {(2,6), (3,3), (4,2)} (924 + 1680 + 2520, TLC); %d seeded "
             "schedules per workload are executed by real goroutines with a controller releasing one goroutine per section, and every workload also runs "
             "free (4x3 and 8x2 goroutines, %d repetitions), all under the Go race detector (-race, halt on the first report). Workloads: shards of "
             "All(7,a,m); canonical labelling with own reused storage; six kinds of itertools iterators; own dawg.Builder; Lookup/Search with own "
             "searchers on one shared Dawg; observers and invariants on shared dense and sparse graphs; AllMaximalCliques producers on one shared graph; "
             "comb tables; own SortedInts/disjoint sets with a shared read-only operand; encoders and decoders on own graphs. ConcTrace.tla replays each schedule and requires every section digest to equal the digest of "
             "the same section executed alone. Non-trivial = gated runs with at least one context switch."
             % (60 if big else 8, 40 if big else 5),
        samples=["conc[search](sched=[1 2 3 1 2 3 1 2 3])", "conc[dawgread](free,procs=8,steps=2)"],
        exhaustive=False, acceptor_stats=st, races=len(races), gated_runs=gated)
    ctx.assumptions += ["absence of data races is the Go race detector's judgement on the executed schedules, not a TLA+ result",
                        "gates are at API-call boundaries; interleavings inside a call are only exercised by the free-running mode"]

    def confirm(cands):
        out = []
        normal = [c for c in cands if not c["input"].get("race")]
        if normal:
            out += vlib.standard_confirm(ctx, ACC, ACC_CFG)(normal)
        for c in cands:
            if c["input"].get("race"):
                inp = os.path.join(ctx.sub("confirm-race"), "in-%s.json" % c["input"]["kind"])
                import json
                json.dump(dict(inputs=[{k: v for k, v in c["input"].items() if k != "race"}]), open(inp, "w"))
                _, _, meta = one_kind(ctx, c["input"]["kind"], None, infile=inp)
                if meta.get("race"):
                    out.append(c)
        return out
    return vlib.finish(ctx, confirm)


def replay(ctx, rp):
    ctx.candidates.append(dict(key=rp["key"], why=rp.get("why", ""), input=rp["input"]))
    ctx.build(race=True)
    if rp["input"].get("race"):
        import json
        inp = os.path.join(ctx.sub("confirm-race"), "in.json")
        json.dump(dict(inputs=[{k: v for k, v in rp["input"].items() if k != "race"}]), open(inp, "w"))
        _, _, meta = one_kind(ctx, rp["input"]["kind"], None, infile=inp)
        return ctx.candidates if meta.get("race") else []
    return vlib.standard_confirm(ctx, ACC, ACC_CFG)(ctx.candidates)
